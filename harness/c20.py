"""C20 — documented argument constraints are enforced before any result is produced."""
import itertools

import numpy as np

from .core import Prop

FIELDS = ["lenMismatch", "hasFeature", "featLenMismatch", "binMethodValid", "nBinsOk", "hasWeights", "wLenMismatch", "wNdim2", "wNonPositive", "levelValid"]
DEFAULT = {"lenMismatch": False, "hasFeature": False, "featLenMismatch": False, "binMethodValid": True, "nBinsOk": True, "hasWeights": False,
           "wLenMismatch": False, "wNdim2": False, "wNonPositive": False, "levelValid": True, "f": "mean"}
FS = ["mean", "median", "expectile", "quantile", "unknown"]
W = ["hasWeights", "wLenMismatch", "wNdim2"]
RELEVANT = {
    "ident": ["lenMismatch", "levelValid"],
    "bias": ["lenMismatch", "hasFeature", "featLenMismatch", "binMethodValid", "nBinsOk", "levelValid"] + W,
    "marginal": ["lenMismatch", "hasFeature", "featLenMismatch", "binMethodValid", "nBinsOk"] + W,
    "decompose": ["lenMismatch", "levelValid"] + W,
    "scoreCtor": ["levelValid"],
    "scoreCall": ["lenMismatch"] + W,
    "iso": ["levelValid", "wNonPositive"] + W,
    "isoModel": ["lenMismatch", "levelValid", "wNonPositive", "hasWeights", "wLenMismatch"],
    "plotReliability": ["lenMismatch", "levelValid", "hasWeights", "wLenMismatch"],
    "plotMurphy": ["lenMismatch", "levelValid"] + W,
    "plotBias": ["lenMismatch", "hasFeature", "featLenMismatch", "binMethodValid", "nBinsOk", "levelValid"] + W,
}
USES_F = {"ident", "bias", "decompose", "iso", "isoModel", "plotReliability", "plotMurphy", "plotBias"}


def all_descs(ep):
    rel = RELEVANT[ep]
    fs = FS if ep in USES_F else ["mean"]
    for bits in itertools.product([False, True], repeat=len(rel)):
        for f in fs:
            d = dict(DEFAULT)
            d.update(dict(zip(rel, bits)))
            d["f"] = f
            d["ep"] = ep
            # weight sub-flags only make sense with weights; feature sub-flags with a feature
            if not d["hasWeights"] and (d["wLenMismatch"] or d["wNdim2"] or d["wNonPositive"]):
                continue
            if not d["hasFeature"] and d["featLenMismatch"]:
                continue
            yield d


def realise(d, rng, kind=None):
    """random otherwise-valid data for a descriptor; kind selects the wrong length (0: one short, 1: one long, 2: a single element,
    3: twice as many)"""
    n = rng.randint(4, 9) if rng.random() < 0.85 else rng.choice([1, 2])  # also one or two observations
    if kind is not None and n < 3 and kind in (0, 2):
        n = 3
    y = [rng.randint(0, 12) / 4 for _ in range(n)]
    # a wrong length is not only n - 1: a single prediction (numpy would broadcast it), too many, twice as many
    wrong = [m for m in (n - 1, n - 1, n + 1, 1, 2 * n) if m >= 1 and m != n] if kind is None else [[n - 1, n + 1, 1, 2 * n][kind]]
    npred_ = n if not d["lenMismatch"] else rng.choice(wrong)
    pred = [rng.randint(1, 12) / 4 for _ in range(npred_)]
    npred = len(pred)
    if len(set(y) | set(pred)) < 2:
        # all observations and predictions one and the same number: a Murphy diagram has no threshold range then (the library
        # says so with a ValueError of its own) - not one of the constraints this property is about
        pred[0] = pred[0] + 0.5
    out = {"y": y, "pred": pred}
    if d["hasFeature"]:
        m = npred + (rng.choice([1, -1]) if d["featLenMismatch"] else 0)
        out["feature"] = [float(rng.randint(0, 5)) for _ in range(max(1, m))]
        if d["featLenMismatch"] and len(out["feature"]) == npred:
            out["feature"].append(1.0)
        if rng.random() < 0.5:  # a feature with a null: the bin checks must not depend on it
            out["feature"][rng.randrange(len(out["feature"]))] = float("nan")
    if d["hasWeights"]:
        m = n + (rng.choice([1, -1]) if d["wLenMismatch"] else 0)
        if m == 0:
            m = 2
        if d["wLenMismatch"] and n > 2 and rng.random() < 0.25:
            m = 1  # a single weight (numpy would broadcast it)
        if d["wLenMismatch"] and kind is not None:
            m = [n - 1, n + 1, 1, 2 * n][kind]
        w = [float(rng.randint(1, 3)) for _ in range(m)]
        if d["wNonPositive"]:
            if rng.random() < 0.35:
                w = [-v for v in w]  # all weights strictly negative (a normalisation must not turn them positive)
            elif d["ep"] in ("iso", "isoModel") and rng.random() < 0.3:
                w[rng.randrange(m)] = float("nan")  # not a positive number either
            else:
                w[rng.randrange(m)] = rng.choice([0.0, -1.0])
        out["w"] = w
    out["level"] = rng.choice([0.25, 0.5, 0.75, 0.1]) if d["levelValid"] else rng.choice([0, 0, 0.0, 1, 1, -0.5, 1.5, 2, float("nan")])
    out["functional"] = d["f"] if d["f"] != "unknown" else rng.choice(["XXX", "Mean", "quantil", ""])
    out["bin_method"] = rng.choice(["quantile", "uniform", "sturges", "auto"]) if d["binMethodValid"] else rng.choice(["XXX", "Quantile", ""])
    out["n_bins"] = rng.randint(2, 8) if d["nBinsOk"] else rng.choice([1, 0, -3])
    return out


def run(d, r):
    import matplotlib

    matplotlib.use("Agg")
    import matplotlib.pyplot as plt

    y = np.array(r["y"])
    p = np.array(r["pred"])
    w = None
    if "w" in r:
        w = np.array(r["w"])
        if d["wNdim2"]:
            w = w.reshape(-1, 1)
    feat = np.array(r["feature"]) if "feature" in r else None
    f, lv = r["functional"], r["level"]
    ep = d["ep"]
    if ep == "ident":
        from model_diagnostics.calibration import identification_function

        return identification_function(y, p, functional=f, level=lv)
    if ep == "bias":
        from model_diagnostics.calibration import compute_bias

        return compute_bias(y, p, feature=feat, weights=w, functional=f, level=lv, n_bins=r["n_bins"], bin_method=r["bin_method"])
    if ep == "marginal":
        from model_diagnostics.calibration import compute_marginal

        X = None if feat is None else np.column_stack([feat, feat])
        return compute_marginal(y, p, X=X, feature_name=None if feat is None else 0, weights=w, n_bins=r["n_bins"], bin_method=r["bin_method"])
    if ep == "decompose":
        from model_diagnostics.scoring import SquaredError, decompose

        return decompose(y, p, w, scoring_function=SquaredError(), functional=f, level=lv)
    if ep == "scoreCtor":
        from model_diagnostics import scoring as S

        k = d.get("ctor", 0) % 4
        return [lambda: S.HomogeneousExpectileScore(degree=2, level=lv), lambda: S.HomogeneousQuantileScore(degree=1, level=lv),
                lambda: S.PinballLoss(level=lv), lambda: S.ElementaryScore(eta=1.0, functional="mean", level=lv)][k]()
    if ep == "scoreCall":
        from model_diagnostics import scoring as S

        k = d.get("ctor", 0) % 5
        sf = [S.SquaredError(), S.PoissonDeviance(), S.PinballLoss(0.3), S.LogLoss(), S.ElementaryScore(1.0)][k]
        if k == 3:
            y, p = np.clip(y / 4, 0, 1), np.clip(p / 4, 0.01, 0.99)
        return sf(y, p, w)
    if ep == "iso":
        from model_diagnostics._utils.isotonic import isotonic_regression

        return isotonic_regression(y, w, functional=f, level=lv)
    if ep == "isoModel":
        from model_diagnostics._utils.isotonic import IsotonicRegression

        return IsotonicRegression(functional=f, level=lv).fit(p, y, sample_weight=w)
    fig, ax = plt.subplots()
    try:
        if ep == "plotReliability":
            from model_diagnostics.calibration import plot_reliability_diagram

            return plot_reliability_diagram(y, p, w, functional=f, level=lv, ax=ax)
        if ep == "plotMurphy":
            from model_diagnostics.scoring import plot_murphy_diagram

            return plot_murphy_diagram(y, p, w, etas=4, functional=f, level=lv, ax=ax)
        if ep == "plotBias":
            from model_diagnostics.calibration import plot_bias

            if feat is None:  # without a feature the models themselves are the x-axis: needs at least two
                p = np.column_stack([p, p + 0.5])
            return plot_bias(y, p, feature=feat, weights=w, functional=f, level=lv, n_bins=r["n_bins"], bin_method=r["bin_method"], ax=ax)
    finally:
        plt.close(fig)
    raise KeyError(ep)


class C20(Prop):
    id = "C20"
    unique_answer = True
    rule = (
        "every entry point (identification_function, compute_bias, compute_marginal, decompose, the score constructors and "
        "calls, isotonic_regression, the fitted isotonic model, plot_reliability_diagram, plot_murphy_diagram, plot_bias) x "
        "every combination of the constraint flags the entry point uses (length mismatch, feature present / of wrong length, "
        "bin method valid, n_bins >= 2, weights present / wrong length / 2-d / non-positive, functional name incl. unknown, "
        "level in (0,1)) - the full product is enumerated (thorough: 3 realisations each; quick: 1), each realised with random "
        "otherwise-valid data; the outcome class (result / ValueError / NotImplementedError / other exception) is compared "
        "with the decision model. Oracle: a call that violates a used constraint must raise (ValueError, except the two "
        "documented exceptions) and return nothing. Non-trivial = a descriptor violating at least one used constraint."
        "Later additions: every kind of wrong length (one short, one long, a single element numpy would broadcast, twice as many) for every score class, "
        "one or two observations, NaN as an invalid level and as a non-positive weight, all-negative weights, a NaN in half of the features. "
    )
    assumptions = ["numpy / scikit-learn / polars raise for inputs they cannot handle (np.average with mis-shaped weights)"]

    def generate(self, tier, rng):
        reps = 1 if tier == "quick" else 3
        for ep in RELEVANT:
            descs = list(all_descs(ep))
            cap = (60 if ep.startswith("plot") else 250) if tier == "quick" else len(descs)
            if len(descs) > cap:
                # always keep the single-violation descriptors, sample the rest
                single = [d for d in descs if len(self.violated(d)) <= 1]
                rest = [d for d in descs if len(self.violated(d)) > 1]
                rng.shuffle(single)
                rng.shuffle(rest)
                descs = (single[: cap * 2 // 3] + rest)[:cap]
            for d in descs:
                for k in range(reps):
                    dd = dict(d)
                    dd["ctor"] = rng.randint(0, 9)
                    yield {"stream": ep, "desc": dd, "data": realise(dd, rng)}
        # the single-violation "wrong length" descriptors once more, with every kind of wrong length (one short, one long, a
        # single element that numpy would broadcast, twice as many) and every score class / one or two observations
        for ep in RELEVANT:
            for d in all_descs(ep):
                v = self.violated(d)
                if len(v) != 1 or not (d["lenMismatch"] or d.get("wLenMismatch")):
                    continue
                for kind in range(4):
                    for ctor in (range(5) if ep == "scoreCall" else [rng.randint(0, 9)]):
                        dd = dict(d)
                        dd["ctor"] = ctor
                        yield {"stream": ep, "desc": dd, "data": realise(dd, rng, kind)}

    def impl(self, case):
        try:
            res = run(case["desc"], case["data"])
        except ValueError as e:
            return {"outcome": "ValueError", "msg": str(e)[:120]}
        except NotImplementedError as e:
            return {"outcome": "NotImplementedError", "msg": str(e)[:120]}
        except Exception as e:
            return {"outcome": "exception", "cls": type(e).__name__, "msg": str(e)[:120]}
        return {"outcome": "ok", "returned": type(res).__name__}

    def model_request(self, case):
        d = case["desc"]
        r = {"op": "validate", "ep": d["ep"], "f": d["f"]}
        for k in FIELDS:
            r[k] = d[k]
        return r

    def compare(self, case, io, mo):
        if mo["outcome"] == "exception" and io["outcome"] != "ok":
            return None  # "an exception is raised" (mis-shaped weights handed to a score): the class is not prescribed
        if io["outcome"] != mo["outcome"]:
            return f"{case['desc']['ep']}: implementation {io['outcome']} ({io.get('cls', '')} {io.get('msg', '')!r}) vs model {mo['outcome']}"
        return None

    def violated(self, d):
        ep = d["ep"]
        rel = set(RELEVANT[ep])
        v = []
        if "lenMismatch" in rel and d["lenMismatch"]:
            v.append("length mismatch")
        if d["hasFeature"] and "hasFeature" in rel:
            if d["featLenMismatch"]:
                v.append("feature length")
            if not d["binMethodValid"]:
                v.append("bin method")
            if not d["nBinsOk"]:
                v.append("n_bins < 2")
        if d["hasWeights"]:
            if d["wLenMismatch"] and "wLenMismatch" in rel:
                v.append("weights length")
            if d["wNdim2"] and "wNdim2" in rel:
                v.append("weights 2-d")
            if d["wNonPositive"] and "wNonPositive" in rel:
                v.append("non-positive weights")
            if ep in ("iso", "isoModel", "plotReliability", "decompose") and d["f"] in ("quantile", "median"):
                v.append("weighted quantile")
        if ep in USES_F and d["f"] == "unknown":
            v.append("unknown functional")
        if not d["levelValid"] and "levelValid" in rel and (d["f"] in ("expectile", "quantile") or ep in ("scoreCtor", "plotMurphy")):
            v.append("level")
        return v

    def oracle(self, case, io):
        v = self.violated(case["desc"])
        if v and io["outcome"] == "ok":
            return f"{case['desc']['ep']} returned a {io.get('returned')} although the call violates: {', '.join(v)}"
        if v and io["outcome"] == "exception":
            if not (case["desc"]["ep"] in ("scoreCall", "plotMurphy") and set(v) <= {"weights length", "weights 2-d"}):
                return f"{case['desc']['ep']} raised {io.get('cls')} instead of ValueError for: {', '.join(v)}"
        if v and io["outcome"] == "NotImplementedError" and "weighted quantile" not in v:
            return f"{case['desc']['ep']} raised NotImplementedError for: {', '.join(v)}"
        return None

    def nontrivial(self, case, io):
        return bool(self.violated(case["desc"]))

    def key(self, case):
        import hashlib, json

        return hashlib.sha1(json.dumps(case["desc"], sort_keys=True).encode()).hexdigest()


PROP = C20
