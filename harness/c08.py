"""C08 — identification functions are oriented residuals vanishing at the functional."""
from fractions import Fraction

import numpy as np

from . import iso_common as ic
from .core import Prop, close, dec_list, enc, enc_list, exc_class

FUNCS = ["mean", "median", "expectile", "quantile"]


def call_ident(y, z, f, level, ydt=None, zdt=None):
    from model_diagnostics.calibration import identification_function

    try:
        ya, za = np.array(y, dtype=float), np.array(z, dtype=float)
        if ydt:
            ya = ya.astype(ydt)
        if zdt:
            za = za.astype(zdt)
        v = identification_function(ya, za, functional=f, level=level)
    except Exception as e:
        return {"err": exc_class(e)}
    return {"v": [float(t) for t in np.asarray(v, dtype=float)]}


class C08(Prop):
    id = "C08"
    unique_answer = True
    rule = (
        "streams: 'pairs' = vectors of (y, z) pairs from small dyadic alphabets with z == y in about a third of the pairs, all "
        "four functionals, dyadic and decimal levels, plus invalid levels / functional names for the outcome class; 'sample' = a "
        "weighted sample and a grid of constant predictions including every data value: the oracle checks monotonicity in the "
        "prediction, zero average at the exact weighted mean / expectile, the sign pattern and the value F(z) - level for "
        "quantiles, and the two aliases. Exact comparison with the model (inputs dyadic). Non-trivial = at least one tie z == y "
        "and one pair on each side."
        "Later additions: narrow / unsigned / boolean / single-precision / byte-swapped dtypes for observations and predictions, predictions one ulp beside "
        "an observation, extreme levels (2^-45, 1e-12, 1 - 1e-9; purely relative tolerance, the model gets the exact binary level), 'reuse' = a container "
        "evaluated, refilled in place and evaluated again, 'inf' = infinite observations / predictions for quantile and median; in the 'sample' stream "
        "the library's own weighted average of V (compute_bias without a feature, up to three constant forecast columns) must equal the weighted average of "
        "identification_function's values. "
    )
    assumptions = ["np.greater_equal on floats = exact >= on the same rationals"]

    def generate(self, tier, rng):
        N = 3000 if tier == "quick" else 40000
        for n in ([65537, 70001] if tier == "quick" else [65536, 65537, 70001, 131073, 200003]):
            # long vectors (any chunking of the computation must cover every element, the last one included)
            ys = [Fraction(rng.randint(-8, 8), 2) for _ in range(64)]
            ys = [ys[(7 * i + i // 64) % 64] for i in range(n)]
            zs = [ys[(i * 5 + 3) % n] if i % 3 else ys[i] for i in range(n)]
            zs[-1] = ys[-1] + 3  # the last residual is certainly not zero
            yield {"stream": "pairs", "f": rng.choice(["mean", "quantile", "median", "expectile"]), "level": "1/4",
                   "y": [str(v) for v in ys], "z": [str(v) for v in zs]}
        for k in range(N):
            n = rng.randint(1, 12)
            ys = [Fraction(rng.randint(-8, 8), 2) for _ in range(n)]
            zs = [y if rng.random() < 0.35 else Fraction(rng.randint(-8, 8), 2) for y in ys]
            f = rng.choice(FUNCS)
            lv = rng.choice(ic.DYADIC_LEVELS[:9] + ic.DECIMAL_LEVELS[:7])
            if rng.random() < 0.08:
                # extreme levels (2^-30, 2^-45, 1 - 2^-30): a formula that subtracts nearly equal numbers loses them
                lv = rng.choice(["1/1073741824", "1/35184372088832", "1073741823/1073741824", "1e-9", "3e-10", "1e-12", "0.999999999"])
            r = rng.random()
            if r < 0.06:
                lv = rng.choice(["0", "1", "-1", "1.5", "2"])
            elif r < 0.09:
                f = rng.choice(["XXX", "Mean", "", "quantil"])
            elif r < 0.11:
                zs = zs[:-1] if n > 1 else zs + zs
            yield {"stream": "pairs", "f": f, "level": lv, "y": [str(v) for v in ys], "z": [str(v) for v in zs]}
        for k in range(N // 6):
            # predictions a hair below / above an observation (no tolerance may be applied to the indicator)
            import math
            n = rng.randint(1, 8)
            ysf = [rng.choice([1.0, 0.1, 3.5, 1e6, -2.25, 1e-3, 123456.789]) for _ in range(n)]
            zsf = []
            for y in ysf:
                r = rng.random()
                zsf.append(math.nextafter(y, -math.inf) if r < 0.35 else math.nextafter(y, math.inf) if r < 0.5 else y * (1 - 1e-10) if r < 0.7 else y * (1 + 1e-12) if r < 0.8 else y)
            yield {"stream": "pairs", "f": rng.choice(FUNCS), "level": rng.choice(ic.DYADIC_LEVELS[:9]),
                   "y": [str(Fraction(v)) for v in ysf], "z": [str(Fraction(v)) for v in zsf]}
        for k in range(N // 5):
            # observations and predictions in (different) narrow / unsigned / single-precision dtypes
            n = rng.randint(1, 8)
            ydt = rng.choice(["int64", "int32", "uint8", "uint16", "uint32", "bool", "float32", "int8", "int16", ">u2", ">i2", ">u4", ">u8", ">f8"])
            zdt = rng.choice(["float32", "float32", "uint8", "uint32", "int64", "bool", "float64", "int8", "int16", ">u2", ">i2", ">u4", ">u8"])
            if ydt.startswith(">") and rng.random() < 0.7:
                zdt = ydt  # both arrays in the same non-native byte order (files read from another platform)
            top = 1 if "bool" in (ydt, zdt) else (100 if "int8" in (ydt, zdt) else 200)
            ysf = [float(rng.randint(0, top)) for _ in range(n)]
            if zdt in ("float32", "float64") and top > 1:
                zsf = [rng.choice([y, float(rng.randint(-2 * top, top)) / 2, -0.5 - rng.randint(0, 5)]) for y in ysf]  # negative non-integers
            else:
                zsf = [float(rng.randint(0, top)) for _ in ysf]
            if ydt in ("int8", "int16") and zdt in ("int8", "int16"):
                # wide spread: the difference does not fit the dtype
                ysf = [float(rng.choice([-1, 1]) * rng.randint(90, 100)) for _ in range(n)]
                zsf = [float(-y) if rng.random() < 0.7 else y for y in ysf]
            yield {"stream": "pairs", "f": rng.choice(FUNCS), "level": rng.choice(ic.DYADIC_LEVELS[:9]), "ydtype": ydt, "zdtype": zdt,
                   "y": [str(Fraction(v)) for v in ysf], "z": [str(Fraction(v)) for v in zsf]}
        for k in range(N // 12):
            # the same container object evaluated, refilled in place and evaluated again (a preallocated buffer): the second
            # result must be that of the current content
            n = rng.randint(1, 8)
            ydt = rng.choice(["list", "bool", "uint8", "int8", "int16", "int32", "uint32", "int64", "float64", "float32"])
            top = 1 if ydt == "bool" else 100
            y1 = [float(rng.randint(0, top)) for _ in range(n)]
            y2 = [float(rng.randint(0, top)) for _ in range(n)]
            zs = [float(rng.choice([a, b, rng.randint(0, top)])) for a, b in zip(y1, y2)]
            yield {"stream": "reuse", "f": rng.choice(FUNCS), "level": rng.choice(ic.DYADIC_LEVELS[:9]), "ydtype": ydt,
                   "y_first": [str(Fraction(v)) for v in y1], "y": [str(Fraction(v)) for v in y2], "z": [str(Fraction(v)) for v in zs]}
        for k in range(N // 12):
            # infinite observations / predictions (quantiles are defined on the extended reals): V = 1{y <= z} - level
            n = rng.randint(1, 6)
            vals = ["inf", "-inf", "0", "2.5", "-3", "inf"]
            ys = [rng.choice(vals) for _ in range(n)]
            zs = [y if rng.random() < 0.5 else rng.choice(vals) for y in ys]
            yield {"stream": "inf", "f": rng.choice(["quantile", "median"]), "level": rng.choice(ic.DYADIC_LEVELS[:9]), "y": ys, "z": zs}
        M = 400 if tier == "quick" else 6000
        for k in range(M):
            n = rng.randint(1, 14)
            ys = [Fraction(rng.randint(-6, 6), rng.choice([1, 2, 4])) for _ in range(n)]
            ws = None if rng.random() < 0.4 else [Fraction(rng.randint(1, 6), rng.choice([1, 2])) for _ in range(n)]
            yield {"stream": "sample", "f": rng.choice(FUNCS), "level": rng.choice(ic.DYADIC_LEVELS[:9]),
                   "y": [str(v) for v in ys], "w": None if ws is None else [str(v) for v in ws]}

    def impl(self, case):
        if case["stream"] == "inf":
            return call_ident([float(v) for v in case["y"]], [float(v) for v in case["z"]], case["f"], ic.level_float(case["level"]))
        if case["stream"] == "reuse":
            from model_diagnostics.calibration import identification_function

            lv = ic.level_float(case["level"])
            y1 = [float(Fraction(v)) for v in case["y_first"]]
            y2 = [float(Fraction(v)) for v in case["y"]]
            z = np.array([float(Fraction(v)) for v in case["z"]])
            try:
                if case["ydtype"] == "list":
                    buf = list(y1)
                    identification_function(buf, z, functional=case["f"], level=lv)
                    buf[:] = y2
                else:
                    buf = np.array(y1).astype(case["ydtype"])
                    identification_function(buf, z, functional=case["f"], level=lv)
                    buf[:] = np.array(y2).astype(case["ydtype"])
                second = identification_function(buf, z, functional=case["f"], level=lv)
                fresh = identification_function(np.array(y2).astype(case["ydtype"]) if case["ydtype"] != "list" else list(y2), z,
                                                functional=case["f"], level=lv)
            except Exception as e:
                return {"err": exc_class(e)}
            return {"v": [float(t) for t in np.asarray(second, dtype=float)], "fresh": [float(t) for t in np.asarray(fresh, dtype=float)]}
        ys = [float(Fraction(v)) for v in case["y"]]
        lv = ic.level_float(case["level"]) if case["level"] not in ("0", "1", "-1", "1.5", "2") else float(case["level"])
        if case["stream"] == "pairs":
            return call_ident(ys, [float(Fraction(v)) for v in case["z"]], case["f"], lv, case.get("ydtype"), case.get("zdtype"))
        # sample stream: evaluate at a grid of constants
        grid = self.grid(case)
        out = {"grid": [str(g) for g in grid], "vals": []}
        for g in grid:
            r = call_ident(ys, [float(g)] * len(ys), case["f"], lv)
            if "err" in r:
                return r
            out["vals"].append(r["v"])
        # the library's own (weighted) sample average of V: compute_bias without a feature, several constant forecast columns
        try:
            from model_diagnostics.calibration import compute_bias

            idx = sorted(set([0, len(grid) // 2, len(grid) - 1]))
            P = np.array([[float(grid[i])] * len(ys) for i in idx]).T
            wv = None if case.get("w") is None else np.array([float(Fraction(v)) for v in case["w"]])
            df = compute_bias(np.array(ys), P if len(idx) > 1 else P[:, 0], weights=wv, functional=case["f"], level=lv, feature=None)
            out["bias_avg"] = {"idx": idx, "means": [float(v) for v in df["bias_mean"]]}
        except Exception as e:
            out["bias_avg"] = {"err": exc_class(e) + ": " + str(e)[:120]}
        if case["f"] == "median":
            out["alias"] = [call_ident(ys, [float(g)] * len(ys), "quantile", 0.5)["v"] for g in grid]
        if case["f"] == "expectile":
            out["alias"] = [call_ident(ys, [float(g)] * len(ys), "mean", 0.5)["v"] for g in grid]
            out["alias_half"] = [call_ident(ys, [float(g)] * len(ys), "expectile", 0.5)["v"] for g in grid]
        return out

    def grid(self, case):
        ys = [Fraction(v) for v in case["y"]]
        ws = [Fraction(1)] * len(ys) if case.get("w") is None else [Fraction(v) for v in case["w"]]
        a = ic.level_exact(case["level"])
        pts = set(ys)
        pts |= {min(ys) - 1, max(ys) + 1, ic.wmean(ys, ws), ic.expectile(ys, ws, a)}
        srt = sorted(set(ys))
        pts |= {(u + v) / 2 for u, v in zip(srt, srt[1:])}
        # keep only values exactly representable as floats
        return sorted(p for p in pts if Fraction(float(p)) == p)

    def model_request(self, case):
        if case["stream"] not in ("pairs", "reuse"):
            return None
        lv = case["level"]
        # the identification function computes with the float level itself (exactly that binary number)
        lve = Fraction(lv) if lv in ("0", "1", "-1", "1.5", "2") else Fraction(ic.level_float(lv))
        return {"op": "ident", "f": case["f"], "level": enc(lve), "y": enc_list(Fraction(v) for v in case["y"]),
                "z": enc_list(Fraction(v) for v in case["z"])}

    def compare(self, case, io, mo):
        if ("err" in io) != ("err" in mo):
            return f"outcome differs: implementation {io.get('err', 'ok')} vs model {mo.get('err', 'ok')}"
        if "err" in io:
            return None if io["err"] == mo["err"] else f"exception class differs: {io['err']} vs {mo['err']}"
        vm = dec_list(mo["v"])
        for i, (a, b) in enumerate(zip(io["v"], vm)):
            if not (close(a, b, 1e-12, 1e-300) and (a == 0) == (b == 0) and (a > 0) == (b > 0)):
                return f"V[{i}] = {a!r}, model {float(b)!r}"
        return None

    def oracle(self, case, io):
        if case["stream"] == "inf":
            if "err" in io:
                return f"valid input rejected with {io['err']}"
            a = 0.5 if case["f"] == "median" else ic.level_float(case["level"])
            for y, z, v in zip(case["y"], case["z"], io["v"]):
                want = (1.0 if float(z) >= float(y) else 0.0) - a
                if not abs(v - want) <= 1e-12:
                    return f"V(y={y}, z={z}) = {v!r}, definition 1{{y <= z}} - level = {want!r}"
            return None
        if case["stream"] == "reuse":
            if "err" in io:
                return f"valid input rejected with {io['err']}"
            if io["v"] != io["fresh"]:
                return (f"the result for a container that was evaluated before and refilled in place ({io['v']}) differs from the result "
                        f"for a fresh container with the same content ({io['fresh']})")
        if case["stream"] in ("pairs", "reuse"):
            if "err" in io:
                return None
            ys = [Fraction(v) for v in case["y"]]
            zs = [Fraction(v) for v in case["z"]]
            for y, z, v in zip(ys, zs, io["v"]):
                if z == y and case["f"] in ("mean", "expectile") and v != 0:
                    return f"V(y=z={float(y)}) = {v!r} != 0"
                if z > y and v <= 0 and case["f"] in ("mean", "expectile"):
                    return f"V not positive above the observation: V({float(y)},{float(z)})={v!r}"
                if z < y and v >= 0:
                    return f"V not negative below the observation: V({float(y)},{float(z)})={v!r}"
            return None
        if "err" in io:
            return f"valid input rejected with {io['err']}"
        ys = [Fraction(v) for v in case["y"]]
        n = len(ys)
        ws = [Fraction(1)] * n if case.get("w") is None else [Fraction(v) for v in case["w"]]
        a = Fraction(1, 2) if case["f"] == "median" else ic.level_exact(case["level"])
        grid = [Fraction(g) for g in io["grid"]]
        W = sum(ws)
        prev = None
        ba = io.get("bias_avg")
        if ba is not None:
            if "err" in ba:
                return f"compute_bias without a feature rejected a valid sample: {ba['err']}"
            if len(ba["means"]) != len(ba["idx"]):
                return f"compute_bias without a feature returned {len(ba['means'])} rows for {len(ba['idx'])} forecast columns"
            for i, m in zip(ba["idx"], ba["means"]):
                avg = float(sum(w * Fraction(v) for w, v in zip(ws, io["vals"][i])) / W)
                if not abs(m - avg) <= 1e-11 * (1 + abs(avg)):
                    return (f"the weighted sample average of V reported by compute_bias for the constant forecast {float(grid[i])} is {m!r}, "
                            f"the weighted average of identification_function's values is {avg!r}")
        for g, vals in zip(grid, io["vals"]):
            # per-observation monotonicity in the prediction
            if prev is not None:
                for i in range(n):
                    if vals[i] < prev[i] - 1e-12:
                        return f"V not non-decreasing in the prediction for observation {float(ys[i])} between grid points"
            prev = vals
            avg = sum(w * Fraction(v) for w, v in zip(ws, vals)) / W
            if case["f"] == "mean":
                if g == ic.wmean(ys, ws) and abs(float(avg)) > 1e-12:
                    return f"average identification {float(avg)!r} != 0 at the weighted mean"
                if abs(float(avg - (g - ic.wmean(ys, ws)))) > 1e-9:
                    return "mean identification average is not prediction - mean"
            elif case["f"] == "expectile":
                t = ic.expectile(ys, ws, a)
                if g == t and abs(float(avg)) > 1e-12:
                    return f"average identification {float(avg)!r} != 0 at the weighted expectile"
                if (g < t and avg >= 0) or (g > t and avg <= 0):
                    return f"expectile identification average has the wrong sign at {float(g)} (expectile {float(t)})"
            else:
                share = sum(w for y, w in zip(ys, ws) if y <= g) / W
                if abs(float(avg - (share - a))) > 1e-12:
                    return f"quantile identification average {float(avg)!r} != F(z) - level = {float(share - a)!r} at z={float(g)}"
        if "alias" in io:
            if case["f"] == "median" and io["alias"] != io["vals"]:
                return "median differs from quantile at level 0.5"
            if case["f"] == "expectile":
                for half, mean in zip(io["alias_half"], io["alias"]):
                    if any(abs(u - v) > 1e-12 for u, v in zip(half, mean)):
                        return "expectile at level 0.5 differs from mean"
        return None

    def nontrivial(self, case, io):
        if case["stream"] == "inf":
            return any("inf" in v for v in case["y"] + case["z"])
        if case["stream"] in ("pairs", "reuse"):
            ys, zs = case["y"], case.get("z", [])
            return len(ys) == len(zs) and any(a == b for a, b in zip(ys, zs)) and any(a != b for a, b in zip(ys, zs))
        return len(set(case["y"])) > 1

    def shrink(self, case):
        if case["stream"] in ("pairs", "inf") and len(case["y"]) == len(case["z"]) and len(case["y"]) > 1:
            for i in range(len(case["y"])):
                yield {**case, "y": case["y"][:i] + case["y"][i + 1:], "z": case["z"][:i] + case["z"][i + 1:]}
        if case["stream"] == "sample" and len(case["y"]) > 1:
            for i in range(len(case["y"])):
                c = {**case, "y": case["y"][:i] + case["y"][i + 1:]}
                if case.get("w") is not None:
                    c["w"] = case["w"][:i] + case["w"][i + 1:]
                yield c


PROP = C08
