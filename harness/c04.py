"""C04 — scoring functions are non-negative, zero at perfect forecasts, order-sensitive; domains enforced."""
import math

from . import score_common as sc
from .core import Prop, bits2f


class C04(Prop):
    id = "C04"
    unique_answer = True
    rule = (
        "structured grid: all seven score classes x degrees {-2,-1,-.5,0,.25,.5,1,1.5,2,2.5,3,4,5,7,7.5} x levels "
        "{.01,.2,.25,.5,.75,.8,.99}; streams: 'domain' = vectors of in-domain pairs (zeros, negatives where allowed, z == y in "
        "a fifth of the pairs; the cancellation regime 0 < |z-y| < 2^-10 scale is excluded because rounding is outside the "
        "model) compared with the Float model at 1e-11 x magnitude of the largest term, oracle: no NaN, >= -tol, == 0 at z == y; "
        "'ladder' = one observation and predictions moving away from it on one side: values must not decrease; 'outside' = "
        "vectors with at least one out-of-domain pair: the homogeneous scores must raise ValueError (outcome class compared "
        "with the model); 'ctor' = invalid levels. Non-trivial = a pair with y != z or an out-of-domain pair; distinct = "
        "distinct (class, degree, level, y, z)."
    )
    assumptions = ["np.power/np.log agree with C pow/log as used by Lean's Float to ~1 ulp; overflow to inf is outside the model"]

    def configs(self, rng):
        kind = rng.choice(["hes", "hes", "hes", "hqs", "hqs", "hqs", "logloss", "squared_error", "poisson", "gamma", "pinball"])
        h = rng.choice(sc.HES_DEGREES if kind == "hes" else sc.HQS_DEGREES)
        if rng.random() < 0.15 and kind in ("hes", "hqs"):
            h = int(h) if float(h).is_integer() else h  # Python int degrees too
        return kind, h, rng.choice(sc.LEVELS)

    def generate(self, tier, rng):
        N = 2500 if tier == "quick" else 40000
        for n in ([70001] if tier == "quick" else [65537, 70001, 131073]):
            # one long vector per run (any chunking of the evaluation must cover every element)
            kind, h, lv = self.configs(rng)
            base = [sc.gen_pair(rng, kind, float(h), lv) for _ in range(50)]
            pairs = [base[(3 * i + i // 50) % 50] for i in range(n)]
            yield {"stream": "domain", "kind": kind, "h": h, "level": lv, "y": [p[0] for p in pairs], "z": [p[1] for p in pairs]}
        for k in range(N):
            kind, h, lv = self.configs(rng)
            n = rng.randint(1, 6)
            pairs = [sc.gen_pair(rng, kind, float(h), lv) for _ in range(n)]
            yield {"stream": "domain", "kind": kind, "h": h, "level": lv, "y": [p[0] for p in pairs], "z": [p[1] for p in pairs]}
        for y in (0.0, 0.25, 0.5):
            # log loss at the certain forecasts 0 and 1 (the only place where a score may be infinite): ladders that end there
            yield {"stream": "ladder", "kind": "logloss", "h": 0.0, "level": 0.5, "y": [y] * 4, "z": [0.5, 0.75, 0.9375, 1.0], "certain": True}
        for y in (1.0, 0.5, 0.25):
            yield {"stream": "ladder", "kind": "logloss", "h": 0.0, "level": 0.5, "y": [y] * 4, "z": [0.25, 0.125, 0.0625, 0.0], "certain": True}
        for k in range(N // 3):
            kind, h, lv = self.configs(rng)
            y, _ = sc.gen_pair(rng, kind, float(h), lv)
            up = rng.random() < 0.5
            zs, z = [], y
            for _ in range(6):
                step = rng.choice([0.125, 0.5, 1.0, 2.0, 7.0]) * (max(abs(y), 1.0) if rng.random() < 0.3 else 1.0)
                z = z + step if up else z - step
                if sc.effective(kind, h, lv)[0] == "logloss":
                    z = min(max(z / 8 if z > 1 else z, 1 / 128), 127 / 128)
                zs.append(z)
            if sc.effective(kind, h, lv)[0] == "logloss":
                zs = sorted(set(v for v in zs if (v >= y if up else v <= y)), reverse=not up)
            zs = [v for v in zs if sc.in_domain(kind, float(h), lv, y, v)]
            if len(zs) >= 2:
                yield {"stream": "ladder", "kind": kind, "h": h, "level": lv, "y": [y] * len(zs), "z": zs}
        for k in range(N // 4):
            kind, h, lv = self.configs(rng)
            if kind in ("logloss", "squared_error", "pinball"):
                continue
            bad = sc.gen_pair(rng, kind, float(h), lv, want_domain=False)
            if bad is None:
                continue
            if rng.random() < 0.2:  # a missing value is not in the domain either
                bad = (float("nan"), 2.0) if rng.random() < 0.5 else (2.0, float("nan"))
            n = rng.randint(1, 4)
            pairs = [sc.gen_pair(rng, kind, float(h), lv) for _ in range(n)]
            pairs.insert(rng.randint(0, n), bad)
            yield {"stream": "outside", "kind": kind, "h": h, "level": lv, "y": [p[0] for p in pairs], "z": [p[1] for p in pairs]}
        for k in range(N // 8):
            # integer-typed arrays (the documented domain does not depend on the dtype): values where int32 / int64
            # products overflow, unsigned arrays with z < y
            kind, h, lv = self.configs(rng)
            if kind == "logloss":
                continue
            dt = rng.choice(["int32", "int64", "uint8", "int16"])
            hi = {"int32": 60000, "int64": 4_000_000_000, "uint8": 200, "int16": 300}[dt]
            n = rng.randint(1, 6)
            ys = [float(rng.choice([1, 2, 3, rng.randint(1, hi)])) for _ in range(n)]
            zs = [float(rng.choice([1, 2, 5, rng.randint(1, hi)])) for _ in range(n)]
            yield {"stream": "intdtype", "dtype": dt, "kind": kind, "h": h, "level": lv, "y": ys, "z": zs}
        for k in range(60):
            kind = rng.choice(["hes", "hqs", "pinball"])
            yield {"stream": "ctor", "kind": kind, "h": rng.choice([1.0, 2.0, 3.0]), "level": rng.choice([0.0, 1.0, -0.5, 1.5, 2.0]), "y": [1.0], "z": [2.0]}

    def impl(self, case):
        if case["stream"] == "intdtype":
            import numpy as np

            try:
                sf = sc.make_sf(case["kind"], case["h"], case["level"])
                ya, za = np.array(case["y"]).astype(case["dtype"]), np.array(case["z"]).astype(case["dtype"])
                if len(case["y"]) % 2 == 0:
                    # the same scorer and the same integer arrays were used for other data before and are refilled in place
                    ya[:], za[:] = ya[::-1] // 2 + 1, za[::-1] // 3 + 2
                    try:
                        sf.score_per_obs(ya, za)
                        sf(ya, za)
                    except Exception:
                        pass
                    ya[:], za[:] = np.array(case["y"]).astype(case["dtype"]), np.array(case["z"]).astype(case["dtype"])
                per = sf.score_per_obs(ya, za)
                return {"per_obs": [float(v) for v in np.asarray(per, dtype=float)]}
            except Exception as e:
                from .core import exc_class

                return {"err": exc_class(e)}
        return sc.call_score(case["kind"], case["h"], case["level"], case["y"], case["z"])

    def model_request(self, case):
        return sc.score_request(case["kind"], float(case["h"]), case["level"], case["y"], case["z"])

    def compare(self, case, io, mo):
        if ("err" in io) != ("err" in mo):
            return f"outcome differs: implementation {io.get('err', 'ok')} vs model {mo.get('err', 'ok')}"
        if "err" in io:
            return None if io["err"] == mo["err"] else f"exception class differs: {io['err']} vs {mo['err']}"
        for i, (a, b) in enumerate(zip(io["per_obs"], mo["per_obs"])):
            b = bits2f(b)
            s = sc.scale(case["kind"], float(case["h"]), case["level"], case["y"][i], case["z"][i])
            if math.isnan(a) or math.isnan(b):
                if not (math.isnan(a) and math.isnan(b)):
                    return f"score[{i}] = {a!r}, model {b!r}"
                continue
            if math.isinf(a) or math.isinf(b):
                if a != b:
                    return f"score[{i}] = {a!r}, model {b!r}"
                continue
            if abs(a - b) > 1e-11 * s + 1e-9 * min(abs(a), abs(b)) and not (abs(a - b) <= 1e-9 * max(abs(a), abs(b))):
                return f"score[{i}] = {a!r}, model {b!r} (y={case['y'][i]}, z={case['z'][i]})"
        return None

    def oracle(self, case, io):
        kind, h, lv = case["kind"], float(case["h"]), case["level"]
        st = case["stream"]
        if st == "ctor":
            return None if io.get("err") == "ValueError" else f"level {lv} accepted by the constructor ({io})"
        if st == "outside":
            return None if io.get("err") == "ValueError" else f"out-of-domain pair not rejected with ValueError: {io}"
        if "err" in io:
            return f"in-domain input rejected with {io['err']}"
        vals = io["per_obs"]
        for i, v in enumerate(vals):
            y, z = case["y"][i], case["z"][i]
            s = sc.scale(kind, h, lv, y, z)
            if math.isnan(v):
                return f"score is NaN at y={y}, z={z}"
            if not math.isfinite(v):
                if case.get("certain") and v == math.inf and z in (0.0, 1.0) and y != z:
                    continue  # log loss of a certain forecast that is wrong (or of a fractional observation): +inf
                return f"score is {v} at y={y}, z={z} where the mathematical score is finite"
            if v < -1e-11 * s:
                return f"score {v!r} < 0 at y={y}, z={z}"
            if y == z and abs(v) > 1e-11 * s:
                return f"score {v!r} != 0 at y == z == {y}"
        if st == "ladder":
            for i in range(len(vals) - 1):
                s = sc.scale(kind, h, lv, case["y"][i], case["z"][i + 1])
                if vals[i + 1] < vals[i] - 1e-10 * s:
                    return (f"score decreases when the prediction moves away from y={case['y'][0]}: "
                            f"S(z={case['z'][i]})={vals[i]!r} > S(z={case['z'][i+1]})={vals[i+1]!r}")
        return None

    def nontrivial(self, case, io):
        return case["stream"] in ("outside", "ctor") or any(a != b for a, b in zip(case["y"], case["z"]))

    def shrink(self, case):
        n = len(case["y"])
        if n > (2 if case["stream"] == "ladder" else 1):
            for i in range(n):
                yield {**case, "y": case["y"][:i] + case["y"][i + 1:], "z": case["z"][:i] + case["z"][i + 1:]}


PROP = C04
