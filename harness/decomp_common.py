"""Shared pieces of the decomposition checks (C06, C07)."""
from __future__ import annotations

import math

import numpy as np

from . import iso_common as ic
from . import score_common as sc
from .core import bits2f, exc_class, f2bits

QLEVELS = [0.5, 0.25, 0.75, 0.125, 0.875]


def make_sf(case):
    if case.get("plain"):
        # the same score as a plain callable: no `functional`, no `level` attribute for decompose to read
        obj = make_sf({**case, "plain": False})
        return lambda y_obs, y_pred, weights=None: obj(y_obs, y_pred, weights)
    if case.get("elem_f") is not None:
        from model_diagnostics.scoring import ElementaryScore

        return ElementaryScore(eta=case["eta"], functional=case["elem_f"], level=case["level"])
    return sc.make_sf(case["kind"], case["h"], case["level"])


def call_decompose(case, y=None, cols=None, w="same", **over):
    from model_diagnostics.scoring import decompose

    y = case["y"] if y is None else y
    cols = case["cols"] if cols is None else cols
    w = case.get("w") if isinstance(w, str) else w
    kw = {}
    fn = over.get("functional", case.get("functional"))
    lv = over.get("level_given", case.get("level_given"))
    if fn is not None:
        kw["functional"] = fn
    if lv is not None:
        kw["level"] = lv
    try:
        sf = over.get("sf") or make_sf(case)
        names = over.get("colnames", case.get("colnames"))
        if names is not None and len(names) == len(cols):
            import polars as pl

            X = pl.DataFrame({nm: [float(v) for v in c] for nm, c in zip(names, cols)})
        elif over.get("xcontainer", case.get("xcontainer")) == "rows_mixed":
            # plain Python containers: a list (or tuple) of rows in which integral numbers are ints, the others floats
            py = lambda v: int(v) if float(v).is_integer() else float(v)
            X = [py(v) for v in cols[0]] if len(cols) == 1 and not over.get("force_2d") else [[py(c[i]) for c in cols] for i in range(len(cols[0]))]
            if len(y) % 2 == 1 and isinstance(X[0], list):
                X = tuple(tuple(r) for r in X)
        else:
            xdt = (over.get("narrow", case.get("narrow")) if case.get("narrow_x") else None) or float
            X = np.array(cols[0]).astype(xdt) if len(cols) == 1 and not over.get("force_2d") else np.array(cols).astype(xdt).T
        ydt = over.get("narrow", case.get("narrow")) or float  # whole numbers held in a narrow integer dtype (counts)
        df = decompose(np.array(y).astype(ydt), X, None if w is None else np.array(w).astype(ydt), scoring_function=sf, **kw)
    except Exception as e:
        return {"err": exc_class(e), "msg": str(e)[:160]}
    return {"rows": [[float(r[c]) for c in ("miscalibration", "discrimination", "uncertainty", "score")] for r in df.iter_rows(named=True)],
            "models": [r.get("model") for r in df.iter_rows(named=True)]}


def decompose_request(case):
    r = {"op": "decompose", "kind": case["kind"], "h": f2bits(float(case["h"])), "level": f2bits(case["level"]),
         "y": [f2bits(v) for v in case["y"]], "cols": [[f2bits(v) for v in c] for c in case["cols"]],
         "w": None if case.get("w") is None else [f2bits(v) for v in case["w"]]}
    if case.get("elem_f") is not None:
        r["elem_f"] = case["elem_f"]
        r["eta"] = f2bits(case["eta"])
    if case.get("functional") is not None:
        r["functional"] = case["functional"]
    if case.get("level_given") is not None:
        r["level_given"] = f2bits(case["level_given"])
    if case.get("plain"):
        r["plain"] = True
    if case.get("colnames") and len(case["colnames"]) == len(case["cols"]):
        r["colnames"] = case["colnames"]
    return r


def score_scale(case):
    ys = case["y"]
    # no floor of 1 for data in a small unit (2**-20 and below): tolerances stay relative to the magnitude of the scores
    big = max([abs(v) for v in ys] + [abs(v) for c in case["cols"] for v in c] + [0.0])
    m = 1.0 if (big >= 1e-3 or big == 0.0 or case.get("elem_f") is not None) else 0.0
    for c in case["cols"]:
        for y, z in zip(ys, c):
            if case.get("elem_f") is None:
                m = max(m, sc.scale(case["kind"], float(case["h"]), case["level"], y, z))
            else:
                m = max(m, abs(y) + abs(z) + abs(case["eta"]) + 1)
    # recalibrated values lie in [min y, max y]
    lo, hi = min(ys), max(ys)
    for y in ys:
        for z in (lo, hi):
            if case.get("elem_f") is None and sc.in_domain(case["kind"], float(case["h"]), case["level"], y, z):
                m = max(m, sc.scale(case["kind"], float(case["h"]), case["level"], y, z))
    return m if m > 0 else 1.0


def repair_tie_fragile(case):
    """True when the domain repair is active for an EXPECTILE score, or for a mean score when a float tie splits a block. The repair selects rows by comparing recalibrated
    values (`recalibrated <= val1`); block expectiles that agree to an ulp are pooled or not depending on rounding
    (scipy's root finder on one side, the closed form at the binary level on the other), which changes the selected
    rows and the result at the 1e-3 level. That is floating-point behaviour of a discontinuous rule, outside the model:
    such cases are decided by the metamorphic oracle only and counted (`repair_tie_skipped`)."""
    f = functional_of(case)
    if f not in ("expectile", "mean"):
        return False
    try:
        sf = make_sf(case)
        y = np.array(case["y"], dtype=float)
        sf(y[:1], np.array([y.min()]))
        return False  # min(y) admissible: no repair
    except ValueError:
        pass
    except Exception:
        return False
    if f == "expectile":
        return True
    # mean path (scikit-learn): PAVA there pools only on a strict violation, so two neighbouring blocks whose exact means are
    # EQUAL (5/7 = 15/21 = 10/14) stay apart and come out one ulp different; the repair's `recalibrated <= val1` then takes only
    # one of them. Fragile exactly when the smallest value above min(y) has such a near-duplicate.
    try:
        from sklearn.isotonic import IsotonicRegression as Skl

        w = None if case.get("w") is None else np.array(case["w"], dtype=float)
        for col in case["cols"]:
            x = np.array(col, dtype=float)
            rec = Skl(y_min=None, y_max=None).fit(x, y, sample_weight=w).predict(x)
            if rec.min() <= y.min():
                vals = rec[rec > y.min()]
                if len(vals):
                    v1 = vals.min()
                    if np.any((vals != v1) & (np.abs(vals - v1) <= 1e-9 * abs(v1))):
                        return True
    except Exception:
        return False
    return False


def compare_rows(case, io, mo, tol=1e-9):
    if "rows" in io and "rows" in mo and repair_tie_fragile(case):
        compare_rows.skipped = getattr(compare_rows, "skipped", 0) + 1
        return None
    if ("err" in io) != ("err" in mo):
        return f"outcome differs: implementation {io.get('err', 'ok')} ({io.get('msg', '')}) vs model {mo.get('err', 'ok')}"
    if "err" in io:
        return None if io["err"] == mo["err"] else f"exception class differs: {io['err']} vs {mo['err']}"
    s = score_scale(case)
    names = ["miscalibration", "discrimination", "uncertainty", "score"]
    if len(io["rows"]) != len(mo["rows"]):
        return "number of rows differs"
    if len(case["cols"]) > 1:
        want = mo.get("names") or case.get("colnames") or [str(k) for k in range(len(case["cols"]))]
        if io.get("models") != want:
            return f"model labels {io.get('models')} vs the labels of the columns in column order {want}"
    for k, (ra, rb) in enumerate(zip(io["rows"], mo["rows"])):
        for nm, a, b in zip(names, ra, rb):
            b = bits2f(b)
            if math.isnan(a) or math.isnan(b) or not abs(a - b) <= tol * s:
                return f"column {k} {nm}: {a!r}, model {b!r}"
    return None


def gen_config(rng):
    """a scoring function configuration: dict(kind, h, level, elem_f, eta)"""
    r = rng.random()
    if r < 0.12:
        f = rng.choice(["mean", "median", "expectile", "quantile"])
        return {"kind": "hes", "h": 2.0, "level": rng.choice(QLEVELS), "elem_f": f, "eta": rng.choice([0.0, 1.0, 2.0, 2.5, 0.5, -1.0])}
    kind = rng.choice(["hes", "hes", "hqs", "hqs", "logloss", "squared_error", "squared_error", "poisson", "poisson", "gamma", "pinball", "pinball"])
    h = rng.choice(sc.HES_DEGREES if kind == "hes" else sc.HQS_DEGREES)
    if kind == "hes" and rng.random() < 0.3:
        h = rng.choice([1.0, 0.5, 0.25])  # Tweedie-type with zero counts allowed
    lv = rng.choice(QLEVELS if kind in ("hqs", "pinball") else [0.5, 0.5, 0.2, 0.8, 0.25])
    return {"kind": kind, "h": h, "level": lv, "elem_f": None, "eta": 0.0}


def functional_of(cfg):
    if cfg.get("elem_f"):
        return cfg["elem_f"]
    fam, h, lv = sc.effective(cfg["kind"], cfg["h"], cfg["level"])
    if fam == "hqs":
        return "quantile"
    if fam == "hes" and lv != 0.5:
        return "expectile"
    return "mean"


def gen_data(rng, cfg, n, ncols=1, zeros=True):
    """observations and forecasts in the domain of the score (dyadic values, ties, unsorted)"""
    if cfg.get("elem_f"):
        ys = [rng.randint(-4, 8) / 2 for _ in range(n)]
        cols = [[rng.randint(-4, 8) / 2 for _ in range(n)] for _ in range(ncols)]
        return ys, cols
    fam, h, lv = sc.effective(cfg["kind"], cfg["h"], cfg["level"])
    if fam == "logloss":
        ys = [float(rng.random() < 0.5) if rng.random() < 0.8 else rng.choice([0.25, 0.5]) for _ in range(n)]
        cols = [[rng.randint(1, 15) / 16 for _ in range(n)] for _ in range(ncols)]
        return ys, cols
    all_reals = (fam == "hes" and h > 1) or (fam == "hqs" and (h == 1 or (h > 1 and h % 2 == 1)))
    if all_reals:
        ys = [rng.randint(-6, 12) / 2 for _ in range(n)]
        cols = [[rng.randint(-6, 12) / 2 for _ in range(n)] for _ in range(ncols)]
    else:
        y_zero_ok = fam == "hes" and 0 < h <= 1
        if y_zero_ok and zeros and rng.random() < 0.6:
            ys = [rng.choice([0, 0, 0, 1, 2, 3, 5]) / 2 for _ in range(n)]  # zero-heavy: exercises the domain repair
        else:
            ys = [rng.randint(0 if (y_zero_ok and zeros) else 1, 10) / 2 for _ in range(n)]
        cols = [[rng.randint(1, 12) / 2 for _ in range(n)] for _ in range(ncols)]
    return ys, cols


NAME_POOL = ["xgboost", "glm", "trivial", "new", "baseline", "old", "zeta", "Alpha", "m10", "m2", "b", "a"]


def gen_colnames(rng, ncols):
    """column names that are NOT in sorted order (labels must follow the columns, not the sorted names)"""
    if ncols < 2 or rng.random() < 0.3:
        return None
    for _ in range(20):
        names = rng.sample(NAME_POOL, ncols)
        if names != sorted(names):
            return names
    return None


def gen_weights(rng, n):
    r = rng.random()
    if r < 0.4:
        return None
    if r < 0.65:
        return [float(rng.randint(1, 4)) for _ in range(n)]
    if r < 0.75:
        # genuinely different weights of a very small or very large common magnitude (no absolute tolerance applies to weights)
        sc_ = rng.choice([2.0**-30, 2.0**-40, 2.0**30])
        return [float(rng.randint(1, 8)) * sc_ for _ in range(n)]
    if r < 0.82 and n >= 2:
        # normalised to mean one: the weights sum to n exactly but are not all equal
        w = [1.0] * n
        idx = list(range(n))
        rng.shuffle(idx)
        for a, b in zip(idx[0::2], idx[1::2]):
            d = rng.choice([0.5, 0.25, 0.75])
            w[a], w[b] = 1 - d, 1 + d
        return w
    return [rng.choice([0.25, 0.5, 1.0, 2.0, 3.5]) for _ in range(n)]


def rank_divergent(cfg, n):
    if functional_of(cfg) in ("quantile", "median"):
        return ic.float_rank_divergent(repr(cfg["level"]), n)
    return False
