"""C16 — partial dependence equals its definition and never alters the caller's data."""
import copy
import math
from fractions import Fraction

import numpy as np

from .core import Prop, close, dec_list, enc, enc_list, exc_class

CONTAINERS = ["np_float", "np_int", "list", "tuple_rows", "polars_float", "polars_int", "polars_uint", "np_uint", "list_np_int_rows"]


def build_X(container, rows):
    import polars as pl

    if container == "np_float":
        return np.array(rows, dtype=float)
    if container == "np_int":
        return np.array(rows, dtype=np.int64)
    if container == "list":
        return [list(r) for r in rows]
    if container == "list_np_int_rows":
        return [np.array(r, dtype=np.int64) for r in rows]  # rows that cannot hold a non-integer grid value
    if container == "tuple_rows":
        return [list(r) for r in rows]  # rows must be mutable copies for safe_assign_column; list of lists again
    if container == "np_uint":
        return np.array(rows, dtype=np.uint16)
    cols = list(zip(*rows))
    if container == "polars_uint":
        return pl.DataFrame({f"c{i}": pl.Series([int(v) for v in c], dtype=[pl.UInt8, pl.UInt32][i % 2]) for i, c in enumerate(cols)})
    if container == "polars_float":
        return pl.DataFrame({f"c{i}": [float(v) for v in c] for i, c in enumerate(cols)})
    return pl.DataFrame({f"c{i}": pl.Series([int(v) for v in c], dtype=pl.Int64) for i, c in enumerate(cols)})


def snapshot(obj):
    import polars as pl

    if isinstance(obj, np.ndarray):
        return ("np", obj.dtype.str, obj.tolist())
    if isinstance(obj, pl.DataFrame):
        return ("pl", [str(t) for t in obj.dtypes], obj.rows())
    if isinstance(obj, pl.Series):
        return ("pls", str(obj.dtype), obj.to_list())
    if isinstance(obj, list) and obj and isinstance(obj[0], np.ndarray):
        return ("pylist_np", [(r.dtype.str, r.tolist()) for r in obj])
    return ("py", copy.deepcopy(obj))


def column(X, j):
    import polars as pl

    if isinstance(X, pl.DataFrame):
        return X[:, j].to_numpy().astype(float)
    if isinstance(X, np.ndarray):
        return X[:, j].astype(float)
    return np.array([r[j] for r in X], dtype=float)


def eff_grid(case):
    """the grid the model under test effectively sees: a missing grid value is imputed by the predict function (FILL = 7)"""
    gn = case.get("grid_null")
    return [7.0 if i == gn else g for i, g in enumerate(case["grid"])]


class C16(Prop):
    id = "C16"
    unique_answer = True
    rule = (
        "feature matrices with 2-4 columns and small integer entries in six containers (numpy float / int64 matrix, list of "
        "rows, polars frame with float / Int64 columns), feature column j, predict functions a*x_j*x_k + b*x_k^2 + c*x_j with "
        "an interaction between the feature and another column (implemented for every container and recording what it is "
        "shown), grids with non-integer values, weights none / positive, n_max below / at / above n, seeds. The subsample "
        "indices are drawn by the harness with np.random.default_rng(seed).choice(n, n_max, replace=False) (the documented "
        "draw) and handed to the model. Compared with the model exactly (rationals); oracle: the definition in Fractions, "
        "other columns of the stacked matrix untouched (recorded), caller's X / grid / weights identical before and after "
        "(values and dtypes), equal seeds give equal results. Non-trivial = interaction coefficient != 0 and a grid value "
        "that is not in the column."
        "Later additions: unsigned numpy / polars feature columns, a list of integer numpy rows (refusing a non-integer grid value with ValueError is "
        "accepted, truncating is not), exact-zero weights together with subsampling. "
        "Ownership: list-of-rows and numpy containers are run through the store model (pdList / pdMatrix: objects with identities, "
        "also a list in which one row object occurs several times); compared: the caller's X read back after the call and "
        "whether the matrix shown to the predict function shares row objects / memory with the caller's X is counted in the evidence (not a verdict). "
    )
    assumptions = ["np.random.default_rng(seed).choice is the documented draw; predict functions are row-wise"]

    def generate(self, tier, rng):
        N = 1500 if tier == "quick" else 25000
        for k in range(N):
            n = rng.randint(1, 12)
            ncol = rng.randint(2, 4)
            rows = [[rng.randint(-3, 6) for _ in range(ncol)] for _ in range(n)]
            j = rng.randrange(ncol)
            kk = rng.choice([c for c in range(ncol) if c != j])
            ng = rng.randint(1, 5)
            grid = [rng.choice([rng.randint(-4, 8), rng.randint(-8, 16) / 2, rng.randint(-16, 32) / 4]) for _ in range(ng)]
            w = None if rng.random() < 0.4 else [rng.choice([1, 2, 3, 0.5, 0.25]) for _ in range(n)]
            nmax = rng.choice([None, n, n + 3, max(1, n - 1), max(1, n // 2), 1000])
            seed = rng.choice([0, 0, 1, rng.randint(0, 10**6)])
            if w is not None and n >= 3 and rng.random() < 0.35:
                # exact zeros among the weights (frequency weights, masks); the subsample is still drawn from all rows
                for i in rng.sample(range(n), rng.randint(1, n - 2)):
                    w[i] = 0
                if nmax is not None and nmax < n:
                    sub = [int(i) for i in np.random.default_rng(seed).choice(n, size=nmax, replace=False)]
                    if sum(w[i] for i in sub) == 0:
                        w[sub[0]] = 1
            container = rng.choice(CONTAINERS)
            if container in ("polars_uint", "np_uint"):
                rows = [[abs(v) for v in r] for r in rows]
                grid = [abs(g) for g in grid]  # a feature grid consists of values the column can take
            gcont = rng.choice(["list", "np", "polars", "polars_named"])
            r_ = rng.random()
            if container == "np_int" and r_ < 0.3:
                # a single-precision grid for an int64 matrix whose other columns hold values beyond 2**24: the matrix must be
                # promoted to a dtype that holds BOTH (float64), not to the grid's
                rows = [[v if q == j else v + 2**24 + 1 for q, v in enumerate(r)] for r in rows]
                gcont = "np_f32"
            elif container == "np_uint" and r_ < 0.3:
                # an int8 grid for a uint16 matrix whose other columns hold values above 127
                rows = [[v if q == j else v + 200 for q, v in enumerate(r)] for r in rows]
                grid = [int(abs(g)) % 100 for g in grid]
                gcont = "np_i8"
            grid_null = None
            if container in ("polars_float", "polars_int") and rng.random() < 0.3:
                # a polars grid with a missing value (compute_marginal hands over such a grid for a feature with nulls) and a model
                # that imputes nulls: the null must reach the predict function as a null, not as NaN
                gcont, grid_null = "polars", rng.randrange(ng)
            yield {"stream": "pd", "container": container, "rows": rows, "j": j, "k": kk, "grid": grid, "grid_null": grid_null,
                   "grid_container": gcont, "w": w, "n_max": nmax, "seed": seed, "int_pred": rng.random() < 0.3,
                   "pred_ret": rng.choice(["np", "np", "polars", "list_np"]),
                   # a model that is not defined everywhere: NaN for the rows whose other column equals nan_k at ONE grid value
                   "nan_rule": ({"k_val": rows[rng.randrange(n)][kk], "gi": rng.randrange(ng)} if rng.random() < 0.12 else None),
                   # a Python list X in which equal rows are ONE object occurring several times
                   "share_rows": container in ("list", "list_np_int_rows") and rng.random() < 0.5,
                   "a": rng.randint(-2, 3), "b": rng.randint(-2, 2), "c": rng.randint(-1, 3)}

    alias_counts: dict = {}

    def extra_coverage(self):
        return {"aliasing_observed": dict(self.alias_counts), "aliasing_in_model": "every shown row / matrix is a fresh object (C16_list_caller_unchanged)"}

    def subsample(self, case):
        n = len(case["rows"])
        if case["n_max"] is not None and n > case["n_max"]:
            return [int(i) for i in np.random.default_rng(case["seed"]).choice(n, size=case["n_max"], replace=False)]
        return None

    def impl(self, case):
        import polars as pl
        from model_diagnostics._utils.partial_dependence import compute_partial_dependence

        X = build_X(case["container"], case["rows"])
        if case.get("share_rows"):
            first = {}
            for i, r in enumerate(case["rows"]):
                first.setdefault(tuple(r), i)
            X = [X[first[tuple(r)]] for r in case["rows"]]
        caller_rows = list(X) if isinstance(X, list) else None
        grid = case["grid"]
        if case["grid_container"] == "np":
            grid = np.array(grid, dtype=float)
        elif case["grid_container"] == "np_f32":
            grid = np.array(grid, dtype=np.float32)
        elif case["grid_container"] == "np_i8":
            grid = np.array(grid, dtype=np.int8)
        elif case["grid_container"] == "polars":
            grid = pl.Series([None if i == case.get("grid_null") else float(g) for i, g in enumerate(grid)], dtype=pl.Float64)
        elif case["grid_container"] == "polars_named":
            # a named Series: called like ANOTHER column of X (or like nothing in X) - only its values matter
            ncol_ = len(case["rows"][0])
            other = [q for q in range(ncol_) if q != case["j"]]
            grid = pl.Series(f"c{other[0]}" if other and len(case["grid"]) % 2 else "grid_values", [float(g) for g in grid])
        w = None if case["w"] is None else np.array(case["w"], dtype=float)
        before = (snapshot(X), snapshot(grid), snapshot(w))
        j, k, a, b, c = case["j"], case["k"], case["a"], case["b"], case["c"]
        shown = []
        aliased = []

        FILL = 7.0  # what the model under test imputes for a missing feature value

        def pred(Xs):
            if case.get("grid_null") is not None and isinstance(Xs, pl.DataFrame):
                Xs = Xs.with_columns(Xs[:, j].cast(pl.Float64).fill_null(FILL).alias(Xs.columns[j]))
            xj, xk = column(Xs, j), column(Xs, k)
            ncol = len(case["rows"][0])
            shown.append([column(Xs, q).tolist() for q in range(ncol)])
            if caller_rows is not None and isinstance(Xs, list):
                aliased.append(any(r is cr for r in Xs for cr in caller_rows) or Xs is X)
            elif isinstance(X, np.ndarray) and isinstance(Xs, np.ndarray):
                aliased.append(bool(np.shares_memory(Xs, X)))
            val = a * xj * xk + b * xk * xk + c * xj
            if case.get("nan_rule"):
                nr = case["nan_rule"]
                val = np.asarray(val, dtype=float)
                val[(xk == float(nr["k_val"])) & (xj == float(Fraction(eff_grid(case)[nr["gi"]])))] = np.nan
            if case.get("int_pred") and not case.get("nan_rule") and np.all(val == np.round(val)):
                val = val.astype(np.int64)  # a model that predicts whole numbers (counts, classes) as integers
            if case.get("pred_ret") == "polars":
                return pl.Series("prediction", val)  # a model that answers with a polars Series
            return val

        kw = {} if case["n_max"] is None else {"n_max": case["n_max"]}
        if case["n_max"] is None:
            kw["n_max"] = None
        try:
            r1 = compute_partial_dependence(pred, X, j, grid, weights=w, rng=case["seed"], **kw)
            r2 = compute_partial_dependence(pred, X, j, grid, weights=w, rng=case["seed"], **kw)
        except Exception as e:
            return {"err": exc_class(e), "msg": str(e)[:200]}
        after = (snapshot(X), snapshot(grid), snapshot(w))
        if caller_rows is not None and (len(X) != len(caller_rows) or any(a is not b for a, b in zip(X, caller_rows))):
            after = ("row objects of the caller's list were replaced",) + after[1:]
        return {"pd": [float(v) for v in r1], "pd2": [float(v) for v in r2], "unchanged": before == after,
                "changed": [n for n, u, v in zip(("X", "grid", "weights"), before, after) if u != v], "shown": shown[0],
                "aliased": aliased[0] if aliased else None,
                "after_rows": [[float(column(X, q)[i]) for q in range(len(case["rows"][0]))] for i in range(len(case["rows"]))]}

    def model_request(self, case):
        r = {"op": "pd", "X": [enc_list(Fraction(v) for v in row) for row in case["rows"]], "j": case["j"], "k": case["k"],
             "a": enc(case["a"]), "b": enc(case["b"]), "c": enc(case["c"]), "grid": enc_list(Fraction(g) for g in eff_grid(case)),
             "w": None if case["w"] is None else enc_list(Fraction(v) for v in case["w"])}
        sub = self.subsample(case)
        if sub is not None:
            r["sub"] = sub
        own = self.ownership(case)
        if own is not None:
            # the ownership model (objects with identities): a Python list of row objects / one numpy matrix
            r.pop("X")
            r.update(op="pd_own", **own)
        return r

    @staticmethod
    def ownership(case):
        rows = case["rows"]
        if case["container"] in ("list", "tuple_rows", "list_np_int_rows"):
            if case.get("share_rows"):
                first, objs, refs = {}, [], []
                for r in rows:
                    if tuple(r) not in first:
                        first[tuple(r)] = len(objs)
                        objs.append(r)
                    refs.append(first[tuple(r)])
            else:
                objs, refs = rows, list(range(len(rows)))
            return {"container": "list", "objs": [enc_list(Fraction(v) for v in row) for row in objs], "refs": refs}
        if case["container"].startswith("np_"):
            return {"container": "matrix", "objs": [enc_list(Fraction(v) for v in row) for row in rows]}
        return None

    def compare(self, case, io, mo):
        if "err" in io and self.refusal_ok(case, io):
            return None
        if "err" in io:
            return f"valid call rejected: {io['err']}: {io.get('msg')}"
        nan_at = self.nan_positions(case)
        for i, (u, v) in enumerate(zip(io["pd"], dec_list(mo["pd"]))):
            if i in nan_at:
                continue  # an undefined prediction in the block: the average is NaN (checked by the oracle), outside the exact model
            if not close(u, v, 1e-12, 1e-12):
                return f"partial dependence at grid value {eff_grid(case)[i]}: {u!r}, model {float(v)!r}"
        if "caller_after" in mo:
            want = [[float(v) for v in dec_list(row)] for row in mo["caller_after"]]
            if io["after_rows"] != want:
                return f"the caller's X after the call is {io['after_rows']}, model (ownership) {want}"
            if io.get("aliased") is not None:
                # evidence only: sharing objects with the caller without writing to them does not alter the caller's data
                key = "shown_matrix_shares_with_caller" if io["aliased"] else "shown_matrix_is_fresh"
                self.alias_counts[key] = self.alias_counts.get(key, 0) + 1
        return None

    def nan_positions(self, case):
        """grid positions whose block of predictions contains a NaN (the partial dependence there is NaN: np.average propagates)"""
        nr = case.get("nan_rule")
        if not nr:
            return set()
        rows = case["rows"]
        sub = self.subsample(case)
        if sub is not None:
            rows = [rows[i] for i in sub]
        g = Fraction(eff_grid(case)[nr["gi"]])
        hit = any(r[case["k"]] == nr["k_val"] for r in rows)
        return {i for i, gv in enumerate(eff_grid(case)) if hit and Fraction(gv) == g}

    @staticmethod
    def refusal_ok(case, io):
        """integer rows cannot take a non-integer grid value: refusing with ValueError is right, truncating silently is not"""
        return (case["container"] == "list_np_int_rows" and io.get("err") == "ValueError"
                and any(Fraction(g).denominator != 1 for g in case["grid"]))

    def oracle(self, case, io):
        if "err" in io and self.refusal_ok(case, io):
            return None
        if "err" in io:
            return f"valid call rejected: {io['err']}: {io.get('msg')}"
        rows = [[Fraction(v) for v in r] for r in case["rows"]]
        ws = None if case["w"] is None else [Fraction(v) for v in case["w"]]
        sub = self.subsample(case)
        if sub is not None:
            rows = [rows[i] for i in sub]
            ws = None if ws is None else [ws[i] for i in sub]
        n = len(rows)
        j, k, a, b, c = case["j"], case["k"], case["a"], case["b"], case["c"]
        nan_at = self.nan_positions(case)
        for gi, g in enumerate(eff_grid(case)):
            if gi in nan_at:
                if not math.isnan(io["pd"][gi]):
                    return (f"value at grid point {float(Fraction(g))} is {io['pd'][gi]!r} although the predict function is NaN for some of the rows "
                            f"it averages (the definition gives NaN)")
                continue
            g = Fraction(g)
            vals = [a * g * r[k] + b * r[k] * r[k] + c * g for r in rows]
            ref = sum(vals) / n if ws is None else sum(w * v for w, v in zip(ws, vals)) / sum(ws)
            if abs(io["pd"][gi] - float(ref)) > 1e-12 * max(1.0, abs(float(ref))):
                return f"value at grid point {float(g)} is {io['pd'][gi]!r}, definition gives {float(ref)!r}"
        if [None if math.isnan(v) else v for v in io["pd"]] != [None if math.isnan(v) else v for v in io["pd2"]]:
            return "equal seeds give different results"
        if not io["unchanged"]:
            return f"the caller's {io['changed']} changed during the call"
        # stacked matrix: other columns untouched, feature column = repeated grid
        shown = io["shown"]
        ng = len(case["grid"])
        for q, col in enumerate(shown):
            if len(col) != n * ng:
                return f"predict function saw {len(col)} rows, expected {n * ng}"
            for t, v in enumerate(col):
                want = float(Fraction(eff_grid(case)[t // n])) if q == j else float(rows[t % n][q])
                if v != want:
                    return f"stacked matrix row {t} column {q} is {v}, expected {want}"
        return None

    def nontrivial(self, case, io):
        col = {r[case["j"]] for r in case["rows"]}
        return case["a"] != 0 and any(g not in col for g in case["grid"]) and len(case["rows"]) > 1

    def shrink(self, case):
        n = len(case["rows"])
        if n > 1 and case["n_max"] in (None, 1000):
            for i in range(n):
                c = {**case, "rows": case["rows"][:i] + case["rows"][i + 1:]}
                if case["w"] is not None:
                    c["w"] = case["w"][:i] + case["w"][i + 1:]
                yield c
        if len(case["grid"]) > 1:
            for i in range(len(case["grid"])):
                gn = case.get("grid_null")
                yield {**case, "grid": case["grid"][:i] + case["grid"][i + 1:], "nan_rule": None,
                       "grid_null": None if gn is None or gn == i else (gn - 1 if gn > i else gn)}


PROP = C16
