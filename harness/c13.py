"""C13 — binning is a total, order-preserving partition into at most n_bins groups."""
import math
from fractions import Fraction

import numpy as np

from . import table_common as tc
from .core import Prop, exc_class


def call_bin(series, n_bins, method, container="polars"):
    """container: how the same column is handed over - the polars Series, a Python list / tuple (None for missing values), a
    numpy array (NaN for missing values; floats only)"""
    import polars as pl
    from model_diagnostics._utils.binning import bin_feature

    feat = series
    if container in ("list", "tuple", "list_npint_first"):
        feat = series.to_list()
        if container == "list_npint_first":
            import numpy as np

            v0 = feat[0] if feat else None
            fin = lambda v: v is not None and v == v and not math.isinf(v)
            if fin(v0) and float(v0).is_integer() and any(fin(v) and not float(v).is_integer() for v in feat[1:]):
                feat = [np.int64(int(v0))] + feat[1:]  # a list that starts with a numpy integer scalar and goes on with floats
        feat = tuple(feat) if container == "tuple" else feat
    elif container == "numpy":
        feat = series.to_numpy()
    try:
        with pl.StringCache():
            feature, nb, fb = bin_feature(feature=feat, feature_name=None, n_obs=series.len(), n_bins=n_bins, bin_method=method)
            bins = fb.get_column("bin").to_list()
            edges = fb.get_column("bin_edges").to_list() if "bin_edges" in fb.columns else None
    except Exception as e:
        return {"err": exc_class(e), "msg": str(e)[:200]}
    out = {"n_bins": int(nb), "bins": bins}
    if edges is not None:
        out["edges"] = [None if e is None else [float(e[0]), float(e[1])] for e in edges]
    return out


class C13(Prop):
    id = "C13"
    float_rank_divergent = 0
    unique_answer = True
    rule = (
        "feature columns: floats with None / NaN / +-inf, Int64 with nulls, constant, all-null, few distinct values; strings, "
        "Categorical, Enum (categories that sort after 'other', contain 'other ', a real category called 'other 2'/'other 3', "
        "nulls, all-null); n_bins 2..12; all 10 bin methods (for the 8 numpy estimators the interior edges are obtained by the "
        "same np.histogram_bin_edges call and handed to the model). Compared with the model: bin of every row, reported edges, "
        "returned n_bins, pooled name. Oracle on the implementation: every row has exactly one bin, null iff null/NaN; edges "
        "contain the value (left-open except the first bin); bins non-decreasing in the value, equal values share a bin; "
        "quantile/uniform give <= n_bins groups incl. the null bin; strings: kept categories are the most frequent (ties in "
        "natural order), pooled name 'other k' with k = number pooled >= 2 and not a real category. Rows whose value lies "
        "within 1e-9 of a computed (uniform / numpy) edge are skipped in the model comparison (float edge arithmetic is "
        "outside the model) and counted. Non-trivial = at least 2 bins and (numeric) a value on an edge or (string) pooling."
    )
    assumptions = ["np.digitize(right=True) = number of edges strictly below x; np.histogram_bin_edges' estimators are parameters",
                   "polars sort order of strings = code-point order; Enum order = its category list"]

    def __init__(self):
        self.edge_ties_skipped = 0
        self.finding_matchers = {"c13_no_finite_value": self.no_finite_value}

    def no_finite_value(self, case, io):
        if case["stream"] != "numeric":
            return False  # (an error or, with both signs present, NaN edges from inf - inf: the same missing finite range)
        vals = [v for v in self.values(case) if v is not None and not math.isnan(v)]
        return bool(vals) and all(math.isinf(v) for v in vals)

    def generate(self, tier, rng):
        N = 2500 if tier == "quick" else 40000
        for k in range(N):
            n = rng.choice([1, 2, 3, 5, 8, 13, 30]) if rng.random() < 0.85 else rng.randint(31, 120)
            nb = rng.randint(2, 12)
            if rng.random() < 0.55:
                kind, vals = tc.gen_numeric_feature(rng, n)
                fcont = "polars"
                if kind in ("float", "float_null", "float_nan", "const", "few", "allnull") and rng.random() < 0.35:
                    fcont = rng.choice(["list", "tuple", "numpy", "list_npint_first"])  # float columns: same dtype (Float64) whichever container
                    if fcont == "list_npint_first" and isinstance(vals[0], float) and math.isfinite(vals[0]):
                        vals = [float(round(vals[0]))] + list(vals[1:])
                yield {"stream": "numeric", "kind": kind, "n_bins": nb, "method": rng.choice(tc.ALL_METHODS[:2] * 3 + tc.NUMPY_METHODS), "fcontainer": fcont,
                       "fname": rng.choice(["bin", "bin_edges"]) if fcont == "polars" and rng.random() < 0.15 else None,
                       "feature": [None if v is None else (v if isinstance(v, int) else ("nan" if math.isnan(v) else ("inf" if v == math.inf else ("-inf" if v == -math.inf else v)))) for v in vals]}
            else:
                dtype, vals, enum = tc.gen_string_feature(rng, n)
                yield {"stream": "string", "kind": dtype, "n_bins": nb, "method": rng.choice(tc.ALL_METHODS), "feature": vals, "enum": enum,
                       "fcontainer": rng.choice(["list", "tuple"]) if dtype == "str" and rng.random() < 0.3 and any(v is not None for v in vals) else "polars"}
        for k in range(24 if tier == "quick" else 300):
            # narrow integer columns (Int8 / UInt8 / Int16 / UInt16), also with more bins than an 8-bit bin index could hold
            many = k % 3 == 0
            kind, vals = tc.gen_narrow_feature(rng, many)
            yield {"stream": "numeric", "kind": kind, "n_bins": rng.choice([130, 200, 255]) if many else rng.randint(2, 12),
                   "method": rng.choice(["quantile", "uniform"]) if many else rng.choice(["quantile", "uniform", "sqrt", "sturges"]), "feature": vals}
        for nb in ([4, 5, 7, 10, 14, 20] if tier == "quick" else list(range(2, 41))):
            # regular grids: many values sit exactly on an inner edge of the uniform bins (they belong to the bin on their left,
            # and the reported edges must contain them)
            for kind, vals in (("int", list(range(0, 101))), ("float", [float(v) for v in range(0, 101)]),
                               ("float", [k / 10 for k in range(0, 31)]), ("float", [k / 100 for k in range(0, 101)])):
                yield {"stream": "numeric", "kind": kind, "n_bins": nb, "method": "uniform", "fcontainer": "polars", "feature": vals}
        for k in range(60 if tier == "quick" else 1500):
            # a count tie exactly at the keep / pool cut, with the tied categories first appearing in NON-alphabetical order
            # (ties are resolved in natural order - not by first occurrence, not by an internal code)
            nb = rng.randint(2, 5)
            ncat = nb + rng.randint(1, 3)
            cats = rng.sample(["a", "b", "c", "d", "e", "k", "m", "other 2", "z", "B", "_x"], ncat)
            keep = nb - 1
            counts = sorted([rng.randint(1, 4) for _ in range(ncat)], reverse=True)
            counts[keep] = counts[keep - 1] if keep >= 1 else counts[keep]  # tie across the cut
            by_count = sorted(cats, reverse=True)  # reverse alphabetical: first appearance against the natural order
            vals = []
            for cat, cnt in zip(by_count, counts):
                vals += [cat] * cnt
            first = list(by_count)
            rest = vals[:]
            for cat in first:
                rest.remove(cat)
            rng.shuffle(rest)
            vals = first + rest
            if rng.random() < 0.3:
                vals.insert(rng.randrange(len(vals)), None)
            kind = rng.choice(["str", "cat", "cat", "enum"])
            yield {"stream": "string", "kind": kind, "n_bins": nb, "method": "quantile", "feature": vals,
                   "enum": sorted(set(cats), reverse=rng.random() < 0.5) if kind == "enum" else None, "fcontainer": "polars"}
        for pooled in ([10, 20, 30, 100, 110, 1000, 1230] if tier == "quick" else [10, 20, 30, 40, 100, 110, 200, 1000, 1010, 1230, 2500, 12345]):
            # 'other k' with k a multiple of ten (trailing zeros of the formatted count), k = pooled
            nb = rng.choice([2, 3])
            keep = nb - 1
            vals = [f"c{i:04d}" for i in range(pooled + keep)] + [f"c{i:04d}" for i in range(keep)] * 2
            rng.shuffle(vals)
            yield {"stream": "string", "kind": rng.choice(["str", "cat"]), "n_bins": nb, "method": "sturges", "feature": vals, "enum": None}
        if tier == "thorough":
            for m in (1100, 2500):
                vals = [f"c{i:04d}" for i in range(m)] + ["c0000", "c0001", "c0001"]
                yield {"stream": "string", "kind": "str", "n_bins": 3, "method": "sturges", "feature": vals, "enum": None}

    @staticmethod
    def values(case):
        return [None if v is None else (float(v) if not isinstance(v, str) else float(v)) for v in case["feature"]]

    def series(self, case):
        if case["stream"] == "numeric":
            vals = self.values(case)
            s_ = tc.numeric_series(case["kind"], [None if v is None else (int(v) if case["kind"].startswith(("int", "uint")) else v) for v in vals])
            # a feature may be called like the columns bin_feature itself returns
            return s_.alias(case["fname"]) if case.get("fname") else s_
        return tc.string_series(case["kind"], case["feature"], case.get("enum"))

    def impl(self, case):
        return call_bin(self.series(case), case["n_bins"], case["method"], case.get("fcontainer", "polars"))

    def model_request(self, case):
        if case["stream"] == "numeric":
            vals = self.values(case)
            return {"op": "bin", "kind": "num", "method": case["method"], "n_bins": case["n_bins"],
                    "given": [tc.enc(Fraction(v)) for v in tc.given_edges(case["method"], self.series(case))],
                    "feature": [tc.cell_json(v) for v in vals]}
        r = {"op": "bin", "kind": "str", "n_bins": case["n_bins"], "feature": case["feature"]}
        if case.get("enum") is not None:
            r["enum"] = case["enum"]
        return r

    def compare(self, case, io, mo):
        if "err" in io:
            return f"documented feature type rejected: {io['err']}: {io.get('msg')}"
        if case["stream"] == "numeric" and case["method"] == "quantile" and tc.quantile_rank_divergent(case["feature"], case["n_bins"]):
            # np.nanquantile evaluates the rank n * (k / m) in floating point and picks a neighbouring order statistic where the
            # exact product is an integer: outside the exact model (the oracle on the implementation still applies)
            self.float_rank_divergent += 1
            return None
        if io["n_bins"] != mo["n_bins"]:
            return f"returned n_bins {io['n_bins']} vs model {mo['n_bins']}"
        if case["stream"] == "string":
            if io["bins"] != mo["bins"]:
                d = next(i for i, (a, b) in enumerate(zip(io["bins"], mo["bins"])) if a != b)
                return f"row {d} ({case['feature'][d]!r}) binned as {io['bins'][d]!r}, model {mo['bins'][d]!r}"
            return None
        vals = self.values(case)
        exact_edges = case["method"] == "quantile"
        medges = [None if e is None else [tc.cell_val(e[0]), tc.cell_val(e[1])] for e in mo["edges"]]
        all_edges = {x for e in medges if e for x in e}
        for i, v in enumerate(vals):
            if not exact_edges and tc.near_edge(v, all_edges, eq=case["method"] == "uniform"):
                self.edge_ties_skipped += 1
                continue
            if io["bins"][i] != mo["bins"][i]:
                return f"row {i} (value {v!r}) in bin {io['bins'][i]!r}, model {mo['bins'][i]!r}"
            a, b = io["edges"][i], medges[i]
            if (a is None) != (b is None):
                return f"row {i}: bin_edges {a} vs model {b}"
            if a is not None:
                for u, w in zip(a, b):
                    if not (u == w or (math.isfinite(u) and math.isfinite(w) and abs(u - w) <= 1e-9 * max(1.0, abs(w)))):
                        return f"row {i}: bin_edges {a} vs model {b}"
        return None

    def oracle(self, case, io):
        if "err" in io:
            return f"documented feature type rejected: {io['err']}: {io.get('msg')}"
        bins = io["bins"]
        n = len(case["feature"])
        if len(bins) != n:
            return f"{len(bins)} bin labels for {n} rows"
        if case["stream"] == "numeric":
            vals = self.values(case)
            isnull = [v is None or math.isnan(v) for v in vals]
            for i in range(n):
                if isnull[i] != (bins[i] is None):
                    return f"row {i} (value {vals[i]!r}): null bin mismatch, bin {bins[i]!r}"
            rows = sorted((v, b, e) for v, b, e, nl in zip(vals, bins, io["edges"], isnull) if not nl)
            for (v1, b1, _), (v2, b2, _) in zip(rows, rows[1:]):
                if b1 > b2:
                    return f"bin numbers decrease with the feature value: {v1} -> bin {b1}, {v2} -> bin {b2}"
                if v1 == v2 and b1 != b2:
                    return f"equal values {v1} in different bins {b1}, {b2}"
            first = min((b for _, b, _ in rows), default=None)
            for v, b, e in rows:
                if e is None:
                    return f"value {v} has no bin_edges"
                lo, hi = e
                ok = (lo <= v <= hi) if b == first else (lo < v <= hi)
                # exact: the reported edges are the very numbers the value was digitized against (no tolerance is needed, and a
                # value sitting exactly on an inner edge belongs to the bin on its left)
                if not ok:
                    return f"value {v} in bin {b} is not inside its reported edges ({lo}, {hi}]"
            groups = len(set(bins))
            if case["method"] in ("quantile", "uniform") and groups > case["n_bins"]:
                return f"{groups} groups (incl. null) for n_bins={case['n_bins']}"
            if groups > io["n_bins"]:
                return f"{groups} groups but returned n_bins={io['n_bins']}"
            return None
        feat = case["feature"]
        for i in range(n):
            if (feat[i] is None) != (bins[i] is None):
                return f"row {i}: null bin mismatch ({feat[i]!r} -> {bins[i]!r})"
        real = {v for v in feat if v is not None}
        labels = {b for b in bins if b is not None}
        pooled = labels - real
        groups = len(set(bins))
        if groups > case["n_bins"]:
            return f"{groups} groups (incl. null) for n_bins={case['n_bins']}"
        if len(pooled) > 1:
            return f"several artificial labels {pooled}"
        for f, b in zip(feat, bins):
            if b is not None and b not in pooled and b != f:
                return f"category {f!r} relabelled as the real category {b!r}"
        if pooled:
            name = next(iter(pooled))
            members = {f for f, b in zip(feat, bins) if b == name}
            k = len(members)
            if k < 2:
                return f"pooled category '{name}' holds {k} categories"
            from model_diagnostics._utils.binning import _format_integer

            if name.lstrip("_") != "other " + _format_integer(k):
                return f"pooled category is called {name!r} but pools {k} categories"
            # kept = most frequent, ties in natural order
            order = case.get("enum") or sorted(real)
            cnt = {c: feat.count(c) for c in real}
            ranked = sorted(real, key=lambda c: (-cnt[c], order.index(c)))
            kept = labels - pooled
            if set(ranked[: len(kept)]) != kept:
                return f"kept categories {sorted(kept)} are not the most frequent ones {ranked[:len(kept)]} (counts {cnt})"
        return None

    def nontrivial(self, case, io):
        if "bins" not in io:
            return False
        if case["stream"] == "string":
            real = {v for v in case["feature"] if v is not None}
            return bool({b for b in io["bins"] if b is not None} - real)
        return len(set(io["bins"])) >= 2

    def shrink(self, case):
        n = len(case["feature"])
        if n > 1:
            for i in range(n):
                yield {**case, "feature": case["feature"][:i] + case["feature"][i + 1:]}

    def extra_coverage(self):
        return {"edge_ties_skipped": self.edge_ties_skipped, "float_rank_divergent": self.float_rank_divergent}


PROP = C13
