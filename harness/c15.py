"""C15 — elementary scores are non-negative, consistent, and integrate to the standard scores."""
from fractions import Fraction

import numpy as np

from . import iso_common as ic
from .core import Prop, close, dec_list, enc, enc_list, exc_class

FUNCS = ["mean", "median", "expectile", "quantile"]


def call_elem(eta, f, level, y, z, w=None, mean=False, eta0=None, dtype=None):
    """eta0: the scorer is constructed with another threshold and its public attribute eta is re-assigned before scoring;
    dtype: observations / predictions in that numpy dtype (eta is then passed as given, e.g. a Python int)"""
    from model_diagnostics.scoring import ElementaryScore

    try:
        if eta0 is not None and isinstance(level, float) and 0 < level < 1:
            sf = ElementaryScore(eta=eta0, functional=f, level=0.5)
            sf.score_per_obs(np.array(y, dtype=float), np.array(z, dtype=float))
            sf.eta = eta
            sf.level = level
        else:
            sf = ElementaryScore(eta=eta if eta0 is None else eta0, functional=f, level=level)
            if eta0 is not None:
                sf.score_per_obs(np.array(y, dtype=float), np.array(z, dtype=float))
                sf.eta = eta
        if mean:
            return {"m": float(sf(np.array(y, dtype=float), np.array(z, dtype=float), None if w is None else np.array(w, dtype=float)))}
        if dtype is not None:
            v = sf.score_per_obs(np.array(y).astype(dtype), np.array(z).astype(dtype))
        else:
            v = sf.score_per_obs(np.array(y, dtype=float), np.array(z, dtype=float))
    except Exception as e:
        return {"err": exc_class(e)}
    return {"v": [float(t) for t in np.asarray(v, dtype=float)]}


def exact_elem(f, a, eta, y, z):
    term = (1 if eta <= z else 0) - (1 if eta <= y else 0)
    if f == "mean":
        v = eta - y
    elif f == "expectile":
        v = 2 * abs((1 if eta >= y else 0) - a) * (eta - y)
    else:
        aa = Fraction(1, 2) if f == "median" else a
        v = (1 if y < eta else 0) - aa
    return term * v


class C15(Prop):
    id = "C15"
    unique_answer = True
    rule = (
        "streams: 'pairs' = (eta, y, z) vectors from a small dyadic alphabet so that eta == y, eta == z and y == z each occur in a "
        "large share of the pairs, all four functionals, dyadic/decimal levels, invalid levels for the outcome class - compared "
        "exactly with the model, oracle: every value >= 0 and 0 when z == y; 'integral' = (y, z) pairs: (b-a) * S_mid (the score "
        "is linear resp. constant in eta between y and z) must equal half the squared error / the pinball loss / half the "
        "degree-2 expectile score; 'consistency' = weighted samples, eta from the data values in half the cases: the weighted "
        "average elementary score at the exact sample functional (mean, expectile, every value between lower and upper quantile) "
        "is <= the one at every other constant of a grid containing all data values and midpoints. Non-trivial = eta coincides "
        "with an observation or a prediction."
    )
    assumptions = ["exact comparison is possible because all inputs are dyadic and the formula involves one multiplication"]

    def generate(self, tier, rng):
        N = 3000 if tier == "quick" else 40000
        alpha = [Fraction(k, 2) for k in range(-4, 5)]
        for n in ([70001] if tier == "quick" else [65537, 70001, 131073]):
            # one long vector per run (any chunking of the evaluation must cover every element)
            ys = [alpha[(7 * i + i // 9) % 9] for i in range(n)]
            zs = [alpha[(5 * i + 2) % 9] for i in range(n)]
            zs[-1], ys[-1] = Fraction(2), Fraction(-2)
            yield {"stream": "pairs", "f": rng.choice(["mean", "quantile"]), "level": "1/4", "eta": "1/2", "y": [str(v) for v in ys], "z": [str(v) for v in zs]}
        for k in range(N):
            n = rng.randint(1, 10)
            ys = [rng.choice(alpha) for _ in range(n)]
            zs = [y if rng.random() < 0.25 else rng.choice(alpha) for y in ys]
            eta = rng.choice(ys + zs) if rng.random() < 0.6 else rng.choice(alpha + [Fraction(1, 4), Fraction(-7, 4)])
            f = rng.choice(FUNCS)
            lv = rng.choice(ic.DYADIC_LEVELS[:9] + ic.DECIMAL_LEVELS[:7])
            if rng.random() < 0.04:
                lv = rng.choice(["0", "1", "-1", "1.5"])
            c = {"stream": "pairs", "f": f, "level": lv, "eta": str(eta), "y": [str(v) for v in ys], "z": [str(v) for v in zs]}
            r = rng.random()
            if r < 0.06:
                # a threshold one ulp above / below an observation (decimal grids: 0.1 * 3 != 0.3): no tolerance in the indicators
                import math

                ysf = [rng.choice([0.3, 0.1, 1.0, 2.5, 1e6, 0.7]) for _ in range(n)]
                zsf = [v * rng.choice([0.5, 1.0, 3.0]) for v in ysf]
                y0 = rng.choice(ysf)
                etaf = rng.choice([math.nextafter(y0, math.inf), math.nextafter(y0, -math.inf), y0 * (1 + 1e-13), y0])
                c.update(y=[str(Fraction(v)) for v in ysf], z=[str(Fraction(v)) for v in zsf], eta=str(Fraction(etaf)))
            elif r < 0.12:
                # one scorer object moved along the thresholds: constructed with another eta, the attribute re-assigned
                c["eta0"] = str(rng.choice(alpha))
            elif r < 0.27:
                # whole-numbered data in an unsigned / narrow / 64-bit integer container and eta given as a Python int
                c["dtype"] = rng.choice(["uint8", "uint16", "uint32", "uint64", "int8", "int32", "int64", "bool"])
                top = 1 if c["dtype"] == "bool" else 12
                yi = [rng.randint(0, top) for _ in range(n)]
                zi = [v if rng.random() < 0.25 else rng.randint(0, top) for v in yi]
                c.update(y=[str(v) for v in yi], z=[str(v) for v in zi], eta=str(rng.choice(yi + zi + [rng.randint(0, top)])), int_eta=True)
            yield c
        for k in range(500 if tier == "quick" else 8000):
            y, z = rng.choice(alpha), rng.choice(alpha)
            yield {"stream": "integral", "f": rng.choice(FUNCS), "level": rng.choice(ic.DYADIC_LEVELS[:9]), "y": [str(y)], "z": [str(z)], "eta": "0"}
        for k in range(120 if tier == "quick" else 1500):
            # the Murphy diagram itself: several forecast columns, eta grids on data values
            n = rng.randint(2, 8)
            nm = rng.choice([1, 2, 3, 3, 11])
            y = [rng.randint(-4, 8) / 2 for _ in range(n)]
            cols = [[rng.randint(-4, 8) / 2 for _ in range(n)] for _ in range(nm)]
            if len(set(y + [v for c in cols for v in c])) < 2:
                continue
            vals = sorted(set(y + cols[0]))
            etas = rng.randint(2, 7) if rng.random() < 0.4 else sorted(set(rng.sample(vals, min(len(vals), 3)) + [rng.randint(-8, 16) / 4]))
            if isinstance(etas, list) and rng.random() < 0.4:
                etas = etas[::-1] if rng.random() < 0.5 else rng.sample(etas, len(etas))  # descending / the user's own order
            from .decomp_common import gen_colnames

            yield {"stream": "murphy", "y": y, "cols": cols, "f": rng.choice(FUNCS), "level": rng.choice([0.5, 0.25, 0.75]),
                   "w": None if rng.random() < 0.5 else [rng.choice([1.0, 2.0, 0.5]) for _ in range(n)], "etas": etas,
                   "colnames": gen_colnames(rng, nm) if 2 <= nm <= 3 else None}
        for k in range(400 if tier == "quick" else 6000):
            n = rng.randint(1, 9)
            ys = [Fraction(rng.randint(-4, 4)) for _ in range(n)]
            ws = None if rng.random() < 0.4 else [Fraction(rng.randint(1, 4)) for _ in range(n)]
            f = rng.choice(FUNCS)
            if f in ("median", "quantile") and rng.random() < 0.7:
                ws = None
            eta = rng.choice(ys) if rng.random() < 0.6 else Fraction(rng.randint(-9, 9), 2)
            yield {"stream": "consistency", "f": f, "level": rng.choice(ic.DYADIC_LEVELS[:9]), "eta": str(eta),
                   "y": [str(v) for v in ys], "w": None if ws is None else [str(v) for v in ws]}

    def _c19(self):
        from .c19 import C19

        if not hasattr(self, "_c19obj"):
            self._c19obj = C19()
        return self._c19obj

    def _lv(self, case):
        lv = case["level"]
        return float(lv) if lv in ("0", "1", "-1", "1.5") else ic.level_float(lv)

    def impl(self, case):
        if case["stream"] == "murphy":
            return self._c19().impl(case)
        ys = [float(Fraction(v)) for v in case["y"]]
        lv = self._lv(case)
        f = case["f"]
        if case["stream"] == "pairs":
            eta = int(case["eta"]) if case.get("int_eta") else float(Fraction(case["eta"]))
            return call_elem(eta, f, lv, ys, [float(Fraction(v)) for v in case["z"]],
                             eta0=None if "eta0" not in case else float(Fraction(case["eta0"])), dtype=case.get("dtype"))
        if case["stream"] == "integral":
            y, z = Fraction(case["y"][0]), Fraction(case["z"][0])
            mid = (y + z) / 2
            r = call_elem(float(mid), f, lv, [float(y)], [float(z)])
            return r
        grid = self.grid(case)
        out = {"grid": [str(g) for g in grid], "m": []}
        w = None if case.get("w") is None else [float(Fraction(v)) for v in case["w"]]
        for g in grid:
            r = call_elem(float(Fraction(case["eta"])), f, lv, ys, [float(g)] * len(ys), w, mean=True)
            if "err" in r:
                return r
            out["m"].append(r["m"])
        return out

    def grid(self, case):
        ys = [Fraction(v) for v in case["y"]]
        ws = [Fraction(1)] * len(ys) if case.get("w") is None else [Fraction(v) for v in case["w"]]
        a = ic.level_exact(case["level"])
        srt = sorted(set(ys))
        pts = set(ys) | {min(ys) - 1, max(ys) + 1, Fraction(case["eta"]), Fraction(case["eta"]) - Fraction(1, 2), Fraction(case["eta"]) + Fraction(1, 2)}
        pts |= {(u + v) / 2 for u, v in zip(srt, srt[1:])}
        pts |= {ic.wmean(ys, ws), ic.expectile(ys, ws, a)}
        return sorted(p for p in pts if Fraction(float(p)) == p)

    def model_request(self, case):
        if case["stream"] == "murphy":
            return self._c19().model_request(case)
        if case["stream"] != "pairs":
            return None
        lv = case["level"]
        lve = Fraction(lv) if lv in ("0", "1", "-1", "1.5") else ic.level_exact(lv)
        return {"op": "elem", "old": False, "f": case["f"], "level": enc(lve), "eta": enc(Fraction(case["eta"])),
                "y": enc_list(Fraction(v) for v in case["y"]), "z": enc_list(Fraction(v) for v in case["z"])}

    def compare(self, case, io, mo):
        if case["stream"] == "murphy":
            return self._c19().compare(case, io, mo)
        if ("err" in io) != ("err" in mo):
            return f"outcome differs: implementation {io.get('err', 'ok')} vs model {mo.get('err', 'ok')}"
        if "err" in io:
            return None if io["err"] == mo["err"] else f"exception class differs: {io['err']} vs {mo['err']}"
        for i, (a, b) in enumerate(zip(io["v"], dec_list(mo["v"]))):
            if not close(a, b, 1e-12, 1e-12):
                return f"S[{i}] = {a!r}, model {float(b)!r}"
        return None

    def oracle(self, case, io):
        f = case["f"]
        if case["stream"] == "murphy":
            return self._c19().oracle(case, io)
        if case["stream"] == "pairs":
            if "err" in io:
                return None
            for y, z, v in zip(case["y"], case["z"], io["v"]):
                if v < 0:
                    return f"elementary score {v!r} < 0 at eta={case['eta']}, y={y}, z={z}"
                if y == z and v != 0:
                    return f"elementary score {v!r} != 0 at y == z == {y}"
            return None
        if "err" in io:
            return f"valid input rejected with {io['err']}"
        a = Fraction(1, 2) if f == "median" else ic.level_exact(case["level"])
        if case["stream"] == "integral":
            y, z = Fraction(case["y"][0]), Fraction(case["z"][0])
            got = abs(z - y) * Fraction(io["v"][0])
            if f == "mean":
                want = (z - y) ** 2 / 2
            elif f == "expectile":
                want = abs((1 if z >= y else 0) - a) * (z - y) ** 2
            else:
                want = ((1 if z >= y else 0) - a) * (z - y)
            if abs(float(got - want)) > 1e-12:
                return f"integral over eta = {float(got)!r}, expected {float(want)!r} (y={float(y)}, z={float(z)})"
            return None
        ys = [Fraction(v) for v in case["y"]]
        ws = [Fraction(1)] * len(ys) if case.get("w") is None else [Fraction(v) for v in case["w"]]
        grid = [Fraction(g) for g in io["grid"]]
        vals = dict(zip(grid, io["m"]))
        if any(v < -1e-15 for v in io["m"]):
            return f"average elementary score negative: {min(io['m'])!r}"
        # optimal constants: the sample functional
        if f == "mean":
            opt = [ic.wmean(ys, ws)]
        elif f == "expectile":
            opt = [ic.expectile(ys, ws, a)]
        else:
            W = sum(ws)
            # weighted lower / upper quantile
            srt = sorted(set(ys))
            lo = min(u for u in srt if sum(w for y, w in zip(ys, ws) if y <= u) >= a * W)
            hi = max(u for u in srt if sum(w for y, w in zip(ys, ws) if y < u) <= a * W)
            opt = [g for g in grid if lo <= g <= hi]
        best = min(io["m"])
        for o in opt:
            if o in vals and vals[o] > best + 1e-12:
                worse = [float(g) for g in grid if vals[g] == best][:1]
                return (f"average elementary score at the sample functional {float(o)} is {vals[o]!r} but the constant "
                        f"{worse} scores {best!r} (eta={case['eta']})")
        return None

    def nontrivial(self, case, io):
        if case["stream"] == "murphy":
            return len(case["cols"]) > 1
        if case["stream"] == "integral":
            return case["y"] != case["z"]
        return case["eta"] in case["y"] or case["eta"] in case.get("z", [])

    def shrink(self, case):
        if case["stream"] == "murphy":
            return
        if case["stream"] == "pairs" and len(case["y"]) == len(case["z"]) and len(case["y"]) > 1:
            for i in range(len(case["y"])):
                yield {**case, "y": case["y"][:i] + case["y"][i + 1:], "z": case["z"][:i] + case["z"][i + 1:]}
        if case["stream"] == "consistency" and len(case["y"]) > 1:
            for i in range(len(case["y"])):
                c = {**case, "y": case["y"][:i] + case["y"][i + 1:]}
                if case.get("w") is not None:
                    c["w"] = case["w"][:i] + case["w"][i + 1:]
                yield c


PROP = C15
