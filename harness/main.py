import argparse
import importlib
import os
import sys


def main():
    ap = argparse.ArgumentParser()
    ap.add_argument("prop")
    ap.add_argument("--tier", default=os.environ.get("VERIF_TIER", "quick"), choices=["quick", "thorough"])
    ap.add_argument("--replay", default=None)
    a = ap.parse_args()
    seed = int(os.environ.get("VERIF_SEED", "0"))
    import warnings

    warnings.simplefilter("ignore")
    from . import core

    try:
        mod = importlib.import_module(f"harness.{a.prop.lower()}")
        P = mod.PROP()
        rc = core.run_check(P, a.tier, seed, a.replay)
    except Exception:
        import traceback

        traceback.print_exc()
        print(f"INFRASTRUCTURE ERROR in check {a.prop} (not a violation)")
        sys.exit(2)
    sys.exit(rc)


if __name__ == "__main__":
    main()
