"""C14 — homogeneous scores scale with their degree and reduce to the named special cases."""
import math

from . import score_common as sc
from .core import Prop, bits2f

NAMED = {"squared_error": ("hes", 2, 0.5), "poisson": ("hes", 1, 0.5), "gamma": ("hes", 0, 0.5)}


class C14(Prop):
    id = "C14"
    unique_answer = True
    rule = (
        "streams: 'scale' = in-domain pair vectors, a dyadic scale factor c in {1/8,1/2,2,4,32}: S(cy,cz) must equal c^degree * "
        "S(y,z) (homogeneous expectile and quantile scores, all degrees/levels of the C04 grid; degree 0 = invariance); 'named' "
        "= SquaredError / PoissonDeviance / GammaDeviance / PinballLoss against the family member of degree 2 / 1 / 0 (level "
        "0.5) / quantile degree 1, on the implementation and against the model's named kinds; 'half' = level 0.5 against the "
        "general asymmetric formula evaluated directly; 'limit' = degrees 1 +- 1e-6 and 0 +- 1e-6 against the closed forms at 1 "
        "and 0 (relative 1e-4). Compared with the Float model at 1e-11 x magnitude. Non-trivial = some pair with y != z."
    )
    assumptions = ["c^degree computed with math.pow; dyadic c so that c*y is exact"]

    def generate(self, tier, rng):
        N = 1500 if tier == "quick" else 25000
        for k in range(N):
            kind = rng.choice(["hes", "hqs"])
            h = rng.choice(sc.HES_DEGREES if kind == "hes" else sc.HQS_DEGREES)
            if kind == "hes" and rng.random() < 0.06:
                # a degree next to (not on) the poles 0 and 1 of the general formula: it is that formula which applies there, the
                # closed forms of degree 0 / 1 scale differently (tolerance: rounding of the largest term, which carries 1/|h(h-1)|)
                h = rng.choice([1 - 4e-6, 4e-6, -4e-6, 1 + 4e-6])
            lv = rng.choice(sc.LEVELS)
            n = rng.randint(1, 5)
            pairs = [sc.gen_pair(rng, kind, h, lv) for _ in range(n)]
            yield {"stream": "scale", "kind": kind, "h": h, "level": lv, "c": rng.choice([0.125, 0.5, 2.0, 4.0, 32.0, 2.0**-30, 2.0**-40, 2.0**30]),
                   "y": [p[0] for p in pairs], "z": [p[1] for p in pairs], "inplace": rng.random() < 0.3}
        for k in range(N // 3):
            kind = rng.choice(["squared_error", "poisson", "gamma", "pinball"])
            lv = rng.choice(sc.LEVELS)
            n = rng.randint(1, 5)
            pairs = [sc.gen_pair(rng, kind, 0.0, lv) for _ in range(n)]
            c = {"stream": "named", "kind": kind, "h": 0.0, "level": lv, "y": [p[0] for p in pairs], "z": [p[1] for p in pairs]}
            if rng.random() < 0.35:
                # integer-typed arrays, unsigned with z < y and narrow signed ones
                c["dtype"] = rng.choice(["uint8", "uint32", "int16", "int32"])
                hi = {"uint8": 200, "uint32": 70000, "int16": 300, "int32": 60000}[c["dtype"]]
                c["y"] = [float(rng.randint(1, hi)) for _ in range(n)]
                c["z"] = [float(rng.randint(1, hi)) for _ in range(n)]
            yield c
        for k in range(N // 3):
            kind = rng.choice(["hes", "hqs"])
            h = rng.choice(sc.HES_DEGREES if kind == "hes" else sc.HQS_DEGREES)
            n = rng.randint(1, 5)
            pairs = [sc.gen_pair(rng, kind, h, 0.5) for _ in range(n)]
            yield {"stream": "half", "kind": kind, "h": h, "level": 0.5, "y": [p[0] for p in pairs], "z": [p[1] for p in pairs]}
        for k in range(N // 6):
            kind = rng.choice(["hes", "hqs"])
            h0 = rng.choice([0.0, 1.0])
            lv = rng.choice(sc.LEVELS)
            pairs = [sc.gen_pair(rng, kind, -1.0, lv) for _ in range(3)]  # positive pairs
            pairs = [(abs(y) + 0.5, abs(z) + 0.5) for y, z in pairs]
            # keep out of the cancellation regime: at degree 1e-6 the general formula subtracts terms of size 1e6, i.e. it carries an
            # absolute error of about 1e-10, against a score of about (|z - y| / y)^2 - pairs closer than 5 % are left out
            pairs = [p for p in pairs if p[0] == p[1] or abs(p[1] - p[0]) >= 0.05 * max(abs(p[0]), abs(p[1]))] or [(1.5, 2.5)]
            yield {"stream": "limit", "kind": kind, "h": h0, "level": lv, "y": [p[0] for p in pairs], "z": [p[1] for p in pairs]}

    def impl(self, case):
        k, h, lv, y, z = case["kind"], case["h"], case["level"], case["y"], case["z"]
        base = sc.call_score(k, h, lv, y, z)
        if case.get("dtype"):
            import numpy as np
            from .core import exc_class

            try:
                sf = sc.make_sf(k, h, lv)
                per = sf.score_per_obs(np.array(y).astype(case["dtype"]), np.array(z).astype(case["dtype"]))
                base = {"per_obs": [float(v) for v in np.asarray(per, dtype=float)]}
            except Exception as e:
                base = {"err": exc_class(e)}
        if "err" in base:
            return base
        out = dict(base)
        st = case["stream"]
        if st == "scale" and case.get("inplace") and not case.get("dtype"):
            # the same score object and the same arrays, rescaled in place (y *= c; z *= c) between the two evaluations
            import numpy as np
            from .core import exc_class

            c = case["c"]
            try:
                sf = sc.make_sf(k, h, lv)
                ya, za = np.array(y, dtype=float), np.array(z, dtype=float)
                first = [float(v) for v in np.asarray(sf.score_per_obs(ya, za), dtype=float)]
                ya *= c
                za *= c
                out["scaled"] = [float(v) for v in np.asarray(sf.score_per_obs(ya, za), dtype=float)]
                out["per_obs"] = first
            except Exception as e:
                return {"err": exc_class(e)}
        elif st == "scale":
            c = case["c"]
            out["scaled"] = sc.call_score(k, h, lv, [c * v for v in y], [c * v for v in z]).get("per_obs")
        elif st == "named":
            fam, hh, ll = NAMED.get(k, ("hqs", 1, lv))
            out["family"] = sc.call_score(fam, hh, ll, y, z).get("per_obs")
        elif st == "half":
            # the general asymmetric formula at 0.5, evaluated through a level next to 0.5 is not the same number;
            # use the symmetric relation instead: S_half(y,z) == (S_a(y,z) + S_{1-a}(y,z)) / 2 / (hes: 1, hqs: 1) for a = 0.2
            a = sc.call_score(k, h, 0.2, y, z).get("per_obs")
            b = sc.call_score(k, h, 0.8, y, z).get("per_obs")
            out["sym"] = None if a is None or b is None else [(u + v) / 2 for u, v in zip(a, b)]
        elif st == "limit":
            eps = 1e-6
            out["above"] = sc.call_score(k, h + eps, lv, y, z).get("per_obs")
            out["below"] = sc.call_score(k, h - eps, lv, y, z).get("per_obs")
        return out

    def model_request(self, case):
        return sc.score_request(case["kind"], float(case["h"]), case["level"], case["y"], case["z"])

    def compare(self, case, io, mo):
        if ("err" in io) != ("err" in mo):
            return f"outcome differs: implementation {io.get('err', 'ok')} vs model {mo.get('err', 'ok')}"
        if "err" in io:
            return None
        for i, (a, b) in enumerate(zip(io["per_obs"], mo["per_obs"])):
            b = bits2f(b)
            s = sc.scale(case["kind"], float(case["h"]), case["level"], case["y"][i], case["z"][i])
            if not (abs(a - b) <= 1e-11 * s + 1e-9 * min(abs(a), abs(b))):
                return f"score[{i}] = {a!r}, model {b!r}"
        return None

    def oracle(self, case, io):
        if "err" in io:
            return f"in-domain input rejected with {io['err']}"
        k, h, lv = case["kind"], float(case["h"]), case["level"]
        st = case["stream"]
        vals = io["per_obs"]

        def cmp(other, what, factor=1.0, rel=1e-9):
            if other is None:
                return f"{what}: call failed"
            for i, (u, v) in enumerate(zip(other, vals)):
                s = sc.scale(k, h, lv, case["y"][i], case["z"][i])
                if not (abs(u - factor * v) <= rel * abs(factor) * (s if rel < 1e-6 else abs(v)) + (1e-11 * abs(factor) * s)
                        or abs(u - factor * v) <= max(rel, 1e-9) * max(abs(u), abs(factor * v))):
                    return f"{what}: {u!r} vs {factor * v!r} (y={case['y'][i]}, z={case['z'][i]})"
            return None

        if st == "scale":
            near_pole = k == "hes" and 0 < min(abs(h), abs(h - 1)) < 1e-4
            return cmp(io["scaled"], f"S(c*y, c*z) != c^degree * S(y, z) for c={case['c']}, degree={h}", math.pow(case["c"], h), rel=1e-12 if near_pole else 1e-10)
        if st == "named":
            return cmp(io["family"], f"{k} differs from its family member", rel=1e-12)
        if st == "half":
            # (S_0.2 + S_0.8)/2: expectile family 2|1-a|,2|a| average = 1 -> equals S_half; quantile family: (|1{}-.2| + |1{}-.8|)/2 = .5
            return cmp(io["sym"], "level 0.5 differs from the symmetrised asymmetric score", rel=1e-10)
        if st == "limit":
            for name in ("above", "below"):
                e = cmp(io[name], f"closed form at degree {h} is not the limit of the general formula ({name})", rel=1e-4)
                if e:
                    return e
        return None

    def nontrivial(self, case, io):
        return any(a != b for a, b in zip(case["y"], case["z"]))

    def shrink(self, case):
        n = len(case["y"])
        if n > 1:
            for i in range(n):
                yield {**case, "y": case["y"][:i] + case["y"][i + 1:], "z": case["z"][:i] + case["z"][i + 1:]}


PROP = C14
