"""C07 — decomposition is invariant to row order, replication and monotone relabelling."""
import math

import numpy as np

from . import decomp_common as dc
from . import score_common as sc
from .core import Prop

RELS = ["perm", "replicate", "relabel", "columns", "alias", "explicit", "plain"]


class C07(Prop):
    id = "C07"
    unique_answer = True
    rule = (
        "every case is decomposed once (compared with the Float model) and once more under a metamorphic relation on the "
        "implementation: 'perm' = random row permutation (all four numbers equal; includes Poisson/Tweedie-type scores with "
        "zero counts and unsorted forecasts, where the domain repair is exercised); 'replicate' = integer weights vs physically "
        "repeated rows (mean and expectile scores); 'relabel' = forecasts replaced by a strictly increasing transformation "
        "(2x+1, x^3, exp(x/4), rank) -> discrimination and uncertainty unchanged; 'columns' = each column of a 2-3 column matrix "
        "vs the same column alone; 'alias' = functional 'median' vs 'quantile' at 0.5; 'explicit' = explicit vs inferred "
        "functional/level; 'plain' = the score wrapped in a plain callable (no attributes) with functional / level explicit or missing.  Outcome classes must agree too (an error for one arrangement and a table for the other is a "
        "violation). Non-trivial = non-constant y and forecasts with a tie or an inversion."
    )
    assumptions = ["transformations are chosen to keep the forecasts in the score's domain"]

    def generate(self, tier, rng):
        N = 1500 if tier == "quick" else 25000
        for k in range(N):
            rel = RELS[k % len(RELS)]
            cfg = dc.gen_config(rng)
            if rel == "alias":
                lv = 0.5
                cfg = rng.choice([
                    {"kind": "pinball", "h": 1.0, "level": 0.5, "elem_f": None, "eta": 0.0},
                    {"kind": "hqs", "h": rng.choice([1.0, 3.0, 0.0, 2.0]), "level": 0.5, "elem_f": None, "eta": 0.0},
                    {"kind": "hes", "h": 2.0, "level": 0.5, "elem_f": "median", "eta": rng.choice([0.0, 1.0, 2.5])},
                ])
            n = rng.choice([2, 3, 4, 5, 6, 8, 12]) if rng.random() < 0.9 else rng.randint(13, 40)
            mult = 4 if rel == "replicate" else 1
            if dc.rank_divergent(cfg, n * mult):
                continue
            f = dc.functional_of(cfg)
            if rel == "replicate" and f in ("quantile", "median"):
                rel = "perm"
            ncols = (rng.choice([2, 3, 3, 11, 12]) if rel == "columns" else 1)
            ys, cols = dc.gen_data(rng, cfg, n, ncols)
            w = dc.gen_weights(rng, n)
            if rel == "replicate":
                w = [float(rng.randint(1, 3)) for _ in range(n)]
            c = {"stream": rel, **cfg, "y": ys, "cols": cols, "w": w}
            if rel == "replicate" and rng.random() < 0.3:
                # counts and integer weights held in a narrow (un)signed integer dtype: sum(w * y) is beyond the dtype's range
                c.update(kind=rng.choice(["squared_error", "hes"]), h=2.0, level=rng.choice([0.5, 0.25, 0.75]), elem_f=None, eta=0.0,
                         y=[float(rng.randint(0, 40)) for _ in range(n)], narrow=rng.choice(["uint8", "uint8", "int8", "uint16"]))
            if rel == "plain":
                # the score as a plain callable; functional / level passed explicitly, or not (then: ValueError where they are needed)
                mode = rng.choice(["both", "both", "functional", "level", "none"])
                c["plain"] = True
                c["functional"] = f if mode in ("both", "functional") else None
                c["level_given"] = cfg["level"] if mode in ("both", "level") else None
            if rel == "columns":
                c["colnames"] = dc.gen_colnames(rng, ncols) if ncols <= 3 else None
                if c["colnames"] is None and rng.random() < 0.35:
                    c["xcontainer"] = "rows_mixed"  # the matrix as a list / tuple of rows mixing ints and floats
            if rel == "perm":
                p = list(range(n))
                rng.shuffle(p)
                c["perm"] = p
                if rng.random() < 0.3:  # sorted forecasts in the original, shuffled in the copy
                    order = sorted(range(n), key=lambda i: cols[0][i])
                    c["y"] = [ys[i] for i in order]
                    c["cols"] = [[col[i] for i in order] for col in cols]
                    if w is not None:
                        c["w"] = [w[i] for i in order]
            if rel == "relabel":
                c["map"] = rng.choice(["affine", "cube", "exp", "rank"])
            yield c

    def transform(self, case, col):
        m = case["map"]
        fam, h, _ = sc.effective(case["kind"], case["h"], case["level"])
        if m == "affine":
            return [2 * v + 1 for v in col]
        if m == "cube":
            return [v ** 3 for v in col]
        if m == "exp":
            out = [math.exp(v / 4) for v in col]
            if fam == "logloss":
                out = [v / (1 + v) for v in out]
            return out
        vals = sorted(set(col))
        if fam == "logloss":
            return [(vals.index(v) + 1) / (len(vals) + 1) for v in col]
        return [float(vals.index(v) + 1) for v in col]

    def impl(self, case):
        base = dc.call_decompose(case)
        out = dict(base)
        rel = case["stream"]
        if rel == "perm":
            p = case["perm"]
            out["other"] = dc.call_decompose(case, y=[case["y"][i] for i in p], cols=[[c[i] for i in p] for c in case["cols"]],
                                             w=None if case.get("w") is None else [case["w"][i] for i in p])
        elif rel == "replicate":
            reps = [int(v) for v in case["w"]]
            rep = lambda l: [v for v, k in zip(l, reps) for _ in range(k)]
            out["other"] = dc.call_decompose(case, y=rep(case["y"]), cols=[rep(c) for c in case["cols"]], w=None)
        elif rel == "relabel":
            fam, h, _ = sc.effective(case["kind"], case["h"], case["level"])
            if fam == "logloss" and case["map"] in ("affine", "cube"):
                case = {**case, "map": "exp"}
            out["other"] = dc.call_decompose(case, cols=[self.transform(case, c) for c in case["cols"]])
        elif rel == "columns":
            out["other"] = {"rows": [], "errs": []}
            for c in case["cols"]:
                r = dc.call_decompose(case, cols=[c], colnames=None, xcontainer=None)
                if "err" in r:
                    out["other"]["errs"].append(r["err"])
                else:
                    out["other"]["rows"].append(r["rows"][0])
        elif rel == "alias":
            if case.get("elem_f") == "median":
                from model_diagnostics.scoring import ElementaryScore

                out["other"] = dc.call_decompose(case, sf=ElementaryScore(eta=case["eta"], functional="quantile", level=0.5))
                out["third"] = dc.call_decompose(case, functional="quantile", level_given=0.5)
            else:
                out["other"] = dc.call_decompose(case, functional="median")
                out["third"] = dc.call_decompose(case, functional="quantile", level_given=0.5)
        elif rel == "plain":
            f = dc.functional_of(case)
            if case["functional"] is not None and (case["level_given"] is not None or f in ("mean", "median")):
                # everything decompose needs is passed explicitly: the callable must be treated like the score object itself
                out["other"] = dc.call_decompose({**case, "plain": False, "functional": None, "level_given": None})
            elif "rows" in base:
                out["other"] = {"err": "ValueError", "msg": "expected: functional / level cannot be read from a plain callable"}
        elif rel == "explicit":
            f = dc.functional_of(case)
            kw = {"functional": f}
            if f in ("expectile", "quantile") and (len(case["y"]) % 2 == 0 or case.get("elem_f")):
                kw["level_given"] = case["level"]  # for odd n: explicit functional, the level taken from the scoring function
            out["other"] = dc.call_decompose(case, **kw)
        return out

    def model_request(self, case):
        return dc.decompose_request(case)

    def compare(self, case, io, mo):
        return dc.compare_rows(case, io, mo)

    def oracle(self, case, io):
        rel = case["stream"]
        s = dc.score_scale(case)
        tol = 1e-9 * s
        names = ["miscalibration", "discrimination", "uncertainty", "score"]
        others = [("other", io.get("other"))] + ([("third", io["third"])] if "third" in io else [])
        for tag, other in others:
            if other is None:
                continue
            if rel == "columns":
                if "err" in io:
                    # the matrix call fails as soon as one column fails; single calls must fail for at least one column too
                    if not other["errs"]:
                        return f"matrix call raised {io['err']} but every column alone succeeds"
                    return None
                if other["errs"]:
                    return f"a column alone raised {other['errs']} but the matrix call succeeded"
                rows_o = other["rows"]
            else:
                if ("err" in io) != ("err" in other):
                    return (f"{rel}: one arrangement gives a table, the other raises: original {io.get('err', 'table')} "
                            f"{io.get('msg', '')!r}, transformed {other.get('err', 'table')} {other.get('msg', '')!r}")
                if "err" in io:
                    return None
                rows_o = other["rows"]
            if len(rows_o) != len(io["rows"]):
                return f"{rel}: different number of rows"
            for k, (ra, rb) in enumerate(zip(io["rows"], rows_o)):
                idx = (1, 2) if rel == "relabel" else (0, 1, 2, 3)
                for i in idx:
                    if math.isnan(ra[i]) or math.isnan(rb[i]) or abs(ra[i] - rb[i]) > tol:
                        what = {"perm": "row permutation", "replicate": "integer weights vs repeated rows", "relabel": f"strictly increasing map '{case.get('map')}' of the forecasts",
                                "columns": "column alone vs in the matrix", "alias": f"alias ({tag})", "explicit": "explicit vs inferred functional",
                                "plain": "plain callable with explicit functional / level vs the score object"}[rel]
                        return f"{what} changes {names[i]} of column {k}: {ra[i]!r} vs {rb[i]!r}"
        return None

    def extra_coverage(self):
        return {"repair_tie_skipped": getattr(dc.compare_rows, "skipped", 0)}

    def nontrivial(self, case, io):
        return len(set(case["y"])) > 1 and any(len(set(c)) > 1 for c in case["cols"])

    def shrink(self, case):
        n = len(case["y"])
        if n > 2 and case["stream"] != "columns":
            for i in range(n):
                c = {**case, "y": case["y"][:i] + case["y"][i + 1:], "cols": [col[:i] + col[i + 1:] for col in case["cols"]]}
                if case.get("w") is not None:
                    c["w"] = case["w"][:i] + case["w"][i + 1:]
                if "perm" in case:
                    c["perm"] = [p - (p > i) for p in case["perm"] if p != i]
                yield c
        if case.get("w") is not None and case["stream"] != "replicate":
            yield {**case, "w": None}


PROP = C07
