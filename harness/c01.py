"""C01 — isotonic mean regression is the exact weighted least-squares monotone fit."""
from fractions import Fraction

import numpy as np

from . import iso_common as ic
from .core import Prop, close, dec_list, enc_list, exc_class


class C01(Prop):
    id = "C01"
    unique_answer = True
    rule = (
        "streams: 'exact' = every y in {0..3}^n (n<=5 quick, <=7 thorough) scaled by lcm(1..21) x weight patterns x both "
        "directions (float run is exact, compared bit for bit on x and r); 'random' = structured random y/w (ties, sorted, "
        "saw-tooth, first weight != 1, dyadic/float weights), tolerance 1e-9 and the float-tie rule on r; 'dtype' = bool / int8 / uint8 / "
        "float32 observations and uint8 / int16 / int32 / bool weights whose pooled sums overflow the dtype; 'pava' = pava() "
        "called directly. Non-trivial = at least one pooling step (fewer blocks than observations) and not constant input; "
        "distinct = distinct (y, w, direction)."
    )
    assumptions = [
        "float rounding of sums/divisions is outside the model; inputs are sent to the model as exact rationals",
        "the oracle evaluates the max-min characterisation and the KKT certificate in exact Fraction arithmetic",
    ]

    def generate(self, tier, rng):
        nmax = 5 if tier == "quick" else 7
        pats = ic.WEIGHT_PATTERNS[:4] if tier == "quick" else ic.WEIGHT_PATTERNS
        for ys in ic.small_scope(nmax):
            for pi, pat in enumerate(pats):
                w = pat(len(ys))
                for inc in (True, False):
                    if tier == "quick" and len(ys) == 5 and (pi + inc) % 2:
                        continue
                    yield {
                        "stream": "exact",
                        "f": "mean",
                        "level": "1/2",
                        "inc": inc,
                        "y": [str(v * ic.LCM21) for v in ys],
                        "w": None if w is None else [str(v) for v in w],
                    }
        nrand = 2000 if tier == "quick" else 40000
        for k in range(nrand):
            n = rng.choice([1, 2, 3, 5, 8, 13, 30, 60]) if rng.random() < 0.8 else rng.randint(61, 200 if tier == "quick" else 300)
            yield {
                "stream": "random",
                "f": "mean",
                "level": rng.choice(["1/2", "1/2", "1/4", "4/5", "1/8"]),  # documented: neglected for the mean
                "inc": rng.random() < 0.5,
                "inc_kind": rng.choice([None, None, "np_bool", "int"]),
                "y": ic.gen_y(rng, n),
                "w": ic.gen_w(rng, n),
            }
        for k in range(400 if tier == "quick" else 4000):
            # narrow dtypes: bool / small-int observations, uint8 / int16 / int32 weights whose pooled sums overflow the dtype
            n = rng.randint(2, 12)
            ydt = rng.choice(["bool", "int8", "uint8", "int64", "float32"])
            if ydt == "bool":
                ys = [rng.randint(0, 1) for _ in range(n)]
            else:
                ys = [rng.randint(0, 100) for _ in range(n)]
            if rng.random() < 0.5:
                ys.sort(reverse=rng.random() < 0.7)  # long violating runs -> large pooled weights
            wdt = rng.choice([None, "uint8", "int16", "int32", "bool"])
            if wdt is None:
                w = None
            elif wdt == "bool":
                w = [1] * n
            else:
                top = {"uint8": 120, "int16": 20000, "int32": 1_500_000_000}[wdt]
                w = [rng.randint(top // 2, top) for _ in range(n)]
            yield {"stream": "dtype", "f": "mean", "level": "1/2", "inc": rng.random() < 0.5, "ydtype": ydt, "wdtype": wdt,
                   "y": [str(v) for v in ys], "w": None if w is None else [str(v) for v in w]}
        for k in range(150 if tier == "quick" else 2000):
            # the estimator class on distinct, sorted X with y (and weights) given as plain Python lists - also lists whose first
            # element is a numpy integer scalar while the others are not whole numbers: the fit at the training points is the
            # isotonic regression of y
            n = rng.randint(2, 9)
            ys = [Fraction(rng.randint(0, 6))] + [Fraction(rng.randint(0, 24), 4) for _ in range(n - 1)]
            w = None if rng.random() < 0.4 else [Fraction(rng.randint(1, 3))] + [Fraction(rng.randint(2, 12), 4) for _ in range(n - 1)]
            X = list(range(n))
            if rng.random() < 0.5:
                X = sorted(rng.randint(0, max(1, n // 2)) for _ in range(n))  # ties in X: equal X must get the WEIGHTED mean of their y
            yield {"stream": "class_list", "f": "mean", "level": "1/2", "inc": rng.random() < 0.5, "npint_first": rng.random() < 0.7,
                   "X": X, "y": [str(v) for v in ys], "w": None if w is None else [str(v) for v in w]}
        for k in range(300 if tier == "quick" else 3000):
            n = rng.randint(1, 40)
            yield {"stream": "pava", "f": "mean", "level": "1/2", "inc": True, "y": ic.gen_y(rng, n), "w": ic.gen_w(rng, n, allow_none=False)}

    def impl(self, case):
        if case["stream"] == "class_list":
            from model_diagnostics._utils.isotonic import IsotonicRegression
            from .core import exc_class

            def as_list(vals):
                out = [float(Fraction(v)) for v in vals]
                if case["npint_first"]:
                    out[0] = np.int64(int(out[0]))
                return out

            y, w = as_list(case["y"]), None if case["w"] is None else as_list(case["w"])
            X = [float(v) for v in case.get("X", range(len(y)))]
            try:
                m = IsotonicRegression(increasing=case["inc"], functional="mean").fit(X, y, sample_weight=w)
                x = m.predict(np.array(X))
            except Exception as e:
                return {"err": exc_class(e), "msg": str(e)[:200]}
            return {"x": [float(v) for v in np.atleast_1d(x)], "r": [], "mutated": False}
        if case["stream"] == "pava":
            from model_diagnostics._utils.isotonic import pava

            y = np.array([float(Fraction(v)) for v in case["y"]])
            w = np.array([float(Fraction(v)) for v in case["w"]])
            y0, w0 = y.copy(), w.copy()
            x, r = pava(y, w)
            return {"x": [float(v) for v in x], "r": [int(v) for v in r],
                    "mutated": bool(not np.array_equal(y, y0) or not np.array_equal(w, w0))}
        if case["stream"] == "dtype":
            from model_diagnostics._utils.isotonic import isotonic_regression
            from .core import exc_class
            import warnings

            y = np.array([int(v) for v in case["y"]]).astype(case["ydtype"])
            w = None if case["w"] is None else np.array([int(v) for v in case["w"]]).astype(case["wdtype"])
            y0, w0 = y.copy(), None if w is None else w.copy()
            try:
                with warnings.catch_warnings():
                    warnings.simplefilter("ignore")
                    x, r = isotonic_regression(y, w, increasing=case["inc"])
            except Exception as e:
                return {"err": exc_class(e)}
            return {"x": [float(v) for v in x], "r": [int(v) for v in r],
                    "mutated": bool(not np.array_equal(y, y0) or (w is not None and not np.array_equal(w, w0)))}
        return ic.call_iso(case)

    def model_request(self, case):
        if case["stream"] == "class_list":
            X = case.get("X", list(range(len(case["y"]))))
            return {"op": "isofit", "f": "mean", "level": "1/2", "inc": case["inc"], "X": [str(v) for v in X],
                    "y": enc_list(Fraction(v) for v in case["y"]), "w": None if case["w"] is None else enc_list(Fraction(v) for v in case["w"]),
                    "q": [str(v) for v in X]}
        if case["stream"] == "pava":
            return {"op": "pava", "y": enc_list(Fraction(v) for v in case["y"]), "w": enc_list(Fraction(v) for v in case["w"])}
        return ic.iso_request(case)

    def compare(self, case, io, mo):
        if case["stream"] == "class_list":
            if "err" in io or "err" in mo:
                return None if ("err" in io) == ("err" in mo) else f"outcome differs: implementation {io.get('err', 'ok')} ({io.get('msg', '')}) vs model {mo.get('err', 'ok')}"
            from .core import close, dec_list

            for i, (a, b) in enumerate(zip(io["x"], dec_list(mo["pred"]))):
                if not close(a, b, 1e-9, 1e-9 * ic.data_scale(case)):
                    return f"prediction of the fitted model at training row {i} (X={case.get('X', [i] * (i + 1))[i]}): {a!r}, model {float(b)!r}"
            return None
        return ic.compare_xr(io, mo, exact=case["stream"] == "exact", with_r=False, scale=ic.data_scale(case), ylocal=case["y"])  # r is C12's business

    def oracle(self, case, io):
        if "err" in io:
            return f"valid input rejected with {io['err']}"
        if case["stream"] == "class_list" and len(set(case.get("X", []))) < len(case.get("X", [])):
            return None  # ties in X: the reference is the model's fit among functions of X (compare); C11 has the exact oracle
        ys = [Fraction(v) for v in case["y"]]
        n = len(ys)
        ws = [Fraction(1)] * n if case.get("w") is None else [Fraction(v) for v in case["w"]]
        x = io["x"]
        if len(x) != n:
            return f"length {len(x)} != {n}"
        inc = case["inc"]
        # monotone
        for i in range(n - 1):
            if (inc and x[i] > x[i + 1]) or (not inc and x[i] < x[i + 1]):
                return f"fit not monotone at {i}: {x[i]!r}, {x[i+1]!r}"
        # orient increasing
        if not inc:
            ys, ws, x = ys[::-1], ws[::-1], x[::-1]
        # the characterisation of the statement: max-min of weighted means (exact), small n only
        if n <= 24:
            ref = ic.maxmin_fit(ys, ws, ic.wmean)
        else:
            ref, _ = ic.pava_exact(ys, ws, ic.wmean)
        scale = max(1.0, max(abs(float(v)) for v in ys))
        loc = ic.local_scales(ref, ys)
        for i in range(n):
            if abs(x[i] - float(ref[i])) > 1e-9 * loc[i]:
                return f"x[{i}]={x[i]!r} differs from max-min of weighted means {float(ref[i])!r} (tolerance 1e-9 x {loc[i]:g}, the largest |y| in its block)"
        # weighted totals preserved
        tot_x = sum(w * Fraction(v) for w, v in zip(ws, x))
        tot_y = sum(w * v for w, v in zip(ws, ys))
        if abs(float(tot_x - tot_y)) > 1e-9 * scale * float(sum(ws)):
            return f"weighted total not preserved: {float(tot_x)} vs {float(tot_y)}"
        return None

    def nontrivial(self, case, io):
        return "x" in io and len(io["r"]) - 1 < len(case["y"]) and len(set(case["y"])) > 1

    def shrink(self, case):
        return ic.shrink_iso(case)


PROP = C01
