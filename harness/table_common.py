"""Shared pieces of the table checks (C09, C10, C13, C16)."""
from __future__ import annotations

import math
from fractions import Fraction

import numpy as np

from .core import dec, enc, exc_class

NUMPY_METHODS = ["auto", "fd", "doane", "scott", "stone", "rice", "sturges", "sqrt"]
ALL_METHODS = ["quantile", "uniform"] + NUMPY_METHODS
CATS = ["a", "b", "c", "d", "e", "zebra", "yak", "other 2", "other 3", "_other 3", "_other 2", "__other 2", "other 4", "_other 4", "Other", "ö", "x y", "other", "m"]


def cell_json(v):
    if v is None or (isinstance(v, float) and math.isnan(v)):
        return None
    if v == math.inf:
        return "inf"
    if v == -math.inf:
        return "-inf"
    return enc(Fraction(v))


def cell_val(j):
    if j is None:
        return None
    if j == "inf":
        return math.inf
    if j == "-inf":
        return -math.inf
    return float(Fraction(j))


def gen_numeric_feature(rng, n, kind=None, need_finite=False):
    """need_finite: do not produce columns whose non-null values are all infinite (a recorded C13 finding)"""
    for _ in range(20):
        k, vals = _gen_numeric_feature(rng, n, kind)
        nn = [v for v in vals if v is not None and not (isinstance(v, float) and math.isnan(v))]
        if not need_finite or not nn or any(math.isfinite(v) for v in nn):
            return k, vals
    return "const", [1.0] * n


def _gen_numeric_feature(rng, n, kind=None):
    kind = kind or rng.choice(["float", "float", "float_null", "float_nan", "float_inf", "int", "int_null", "const", "allnull", "few", "float32_nan", "float32_nan"])
    if kind == "allnull":
        return kind, [None] * n
    if kind == "const":
        v = float(rng.randint(-3, 3))
        return kind, [v] * n
    if kind.startswith("int"):
        vals = [rng.randint(-5, 20) for _ in range(n)]
        if kind == "int_null":
            vals = [None if rng.random() < 0.2 else v for v in vals]
        return kind, vals
    if kind == "few":
        vals = [float(rng.choice([0, 1, 1, 2, 5])) for _ in range(n)]
        return kind, vals
    vals = [rng.randint(-40, 160) / 8 for _ in range(n)]
    if kind == "float_null":
        vals = [None if rng.random() < 0.2 else v for v in vals]
    elif kind in ("float_nan", "float32_nan"):
        vals = [float("nan") if rng.random() < 0.2 else v for v in vals]
    elif kind == "float_inf":
        s = rng.choice([math.inf, -math.inf])
        vals = [s if rng.random() < 0.15 else v for v in vals]
        if rng.random() < 0.3:
            vals = [None if rng.random() < 0.15 else v for v in vals]
    return kind, vals


class _Narrow(dict):
    """narrow integer kinds -> polars dtype (resolved lazily: polars is imported by the callers)"""

    def __missing__(self, k):
        raise KeyError(k)


def _pl(name):
    def get():
        import polars as pl

        return getattr(pl, name)
    return get


NARROW = {"int8w": _pl("Int8"), "int16w": _pl("Int16"), "uint8w": _pl("UInt8"), "uint16w": _pl("UInt16")}
NARROW_RANGE = {"int8w": (-128, 127), "int16w": (-300, 300), "uint8w": (0, 255), "uint16w": (0, 600)}


def zero_some_weights(rng, feature, w):
    """set some case weights to exactly 0 (exposure 0), but only on rows whose feature value also occurs in a row that keeps a
    positive weight (equal values share a group, so every group keeps a positive total weight)"""
    groups = {}
    for i, v in enumerate(feature):
        key = "null" if (v is None or v == "nan" or (isinstance(v, float) and v != v)) else repr(v)
        groups.setdefault(key, []).append(i)
    w = list(w)
    for idx in groups.values():
        if len(idx) >= 2 and rng.random() < 0.6:
            for i in rng.sample(idx, rng.randint(1, len(idx) - 1)):
                w[i] = 0.0
    return w


def gen_narrow_feature(rng, many_bins):
    """integer feature in a narrow dtype; many_bins: enough distinct values for more bins than an 8-bit index holds"""
    kind = rng.choice(["int8w", "int8w", "uint8w"]) if many_bins else rng.choice(list(NARROW))
    lo, hi = NARROW_RANGE[kind]
    if many_bins:
        vals = list(range(lo, hi + 1))[: rng.choice([256, 300])]
        vals += [rng.choice(vals) for _ in range(rng.randint(0, 40))]
    else:
        vals = [rng.randint(lo, hi) for _ in range(rng.choice([2, 5, 13, 30]))]
    rng.shuffle(vals)
    if rng.random() < 0.3:
        vals[rng.randrange(len(vals))] = None
    return kind, vals


def numeric_series(kind, vals):
    import polars as pl

    if kind in NARROW:
        return pl.Series("f", vals, dtype=NARROW[kind]())
    if kind.startswith("int"):
        return pl.Series("f", vals, dtype=pl.Int64)
    if kind == "allnull":
        return pl.Series("f", vals, dtype=pl.Float64)
    if kind == "float32_nan":
        return pl.Series("f", [None if v is None else float(v) for v in vals], dtype=pl.Float32)
    return pl.Series("f", [None if v is None else float(v) for v in vals], dtype=pl.Float64)


def given_edges(method, series):
    """what np.histogram_bin_edges returns for the finite non-null values of the polars series, called
    exactly as bin_feature calls it (integer columns get numpy's integer treatment) - a parameter of the model"""
    if method in ("quantile", "uniform"):
        return []
    import warnings

    feature = series.fill_nan(None) if series.dtype.is_float() else series
    if feature.null_count() == feature.len():
        return []
    with warnings.catch_warnings():
        warnings.simplefilter("ignore")
        a = feature.filter(feature.is_finite() & feature.is_not_null())
        return [float(v) for v in np.histogram_bin_edges(a, bins=method)[1:-1]]


def quantile_rank_divergent(values, n_bins):
    """True when numpy's float evaluation of the inverted-cdf rank, index = ceil(n * fl(k / m) - 1), selects another order
    statistic than exact arithmetic for some k (a floating-point artefact of np.nanquantile, outside the exact model).
    values: the feature as the harness holds it (None / 'nan' / NaN = missing); m = effective number of bins."""
    import math
    from fractions import Fraction

    def missing(v):
        return v is None or v == "nan" or (isinstance(v, float) and v != v)

    n = sum(1 for v in values if not missing(v))
    m = max(1, n_bins - (1 if any(missing(v) for v in values) else 0))
    if n == 0 or m < 2:
        return False
    q = np.arange(1, m) / m
    for k in range(1, m):
        v = n * float(q[k - 1]) - 1.0
        idx = math.floor(v) if v == math.floor(v) else math.floor(v) + 1
        if idx != math.ceil(Fraction(k * n, m) - 1):
            return True
    return False


def gen_string_feature(rng, n, dtype=None):
    dtype = dtype or rng.choice(["str", "str", "cat", "enum"])
    k = rng.randint(1, min(10, len(CATS)))
    cats = rng.sample(CATS, k)
    if rng.random() < 0.25:  # real categories that look like the pooled name and its escaped variants
        cats = list(dict.fromkeys(cats[: max(1, k - 3)] + rng.sample(["other 2", "_other 2", "__other 2", "other 3", "_other 3", "other 4", "_other 4"], 3)))
    weights = [rng.choice([1, 1, 2, 3, 5]) for _ in cats]
    vals = rng.choices(cats, weights=weights, k=n)
    r = rng.random()
    if r < 0.3:
        vals = [None if rng.random() < 0.2 else v for v in vals]
    elif r < 0.35:
        vals = [None] * n
    enum = None
    if dtype == "enum":
        enum = list(cats)
        rng.shuffle(enum)
    return dtype, vals, enum


def string_series(dtype, vals, enum):
    import polars as pl

    if dtype == "cat":
        return pl.Series("f", vals, dtype=pl.Categorical)
    if dtype == "enum":
        return pl.Series("f", vals, dtype=pl.Enum(enum))
    return pl.Series("f", vals, dtype=pl.Utf8)


def near_edge(v, edges, tol=1e-6, eq=False):
    """eq=True: a value EQUAL to a model edge counts as well - needed for 'uniform', whose edges the code computes in
    floating point (min + range*k/m may land an ulp beside the exact edge the model uses)"""
    if v is None or not math.isfinite(v):
        return False
    return any(e is not None and math.isfinite(e) and (eq or v != e) and abs(v - e) <= tol * max(1.0, abs(e)) for e in edges)


def uniform_edge_tie(method, vals, model_rows):
    """True when a 'uniform' table cannot be compared row by row: some value sits on a computed interior edge"""
    if method != "uniform":
        return False
    edges = set()
    for r in model_rows:
        if r.get("edges"):
            edges.update(cell_val(e) for e in r["edges"])
    fin = [v for v in vals if v is not None and isinstance(v, (int, float)) and math.isfinite(v)]
    if not fin:
        return False
    interior = {e for e in edges if e is not None and math.isfinite(e) and e not in (min(fin), max(fin))}
    return any(near_edge(v, interior, eq=True) for v in fin)
